"""C19: the harness-side reading of the property (spec prototype), shared by harness/impl/lic_impl.py (direct law checks in the
implementation interpreter) and harness/props/c19.py (known-finding matchers).  Pure functions of the id tables passed in."""

KELVIN = "\u212a"
WS = [9, 10, 11, 12, 13, 28, 29, 30, 31, 32, 133, 160, 5760] + list(range(8192, 8203)) + [8232, 8233, 8239, 8287, 12288]
WS_SET = set(map(chr, WS))
REF_OK = set("ABCDEFGHIJKLMNOPQRSTUVWXYZabcdefghijklmnopqrstuvwxyz0123456789.-")


def alower(t):          # ASCII-only case folding: what "in any letter case" means in the spec
    return "".join(chr(ord(c) + 32) if "A" <= c <= "Z" else c for c in t)


def tokenize(s):
    out, cur = [], ""
    for c in s:
        if c in WS_SET or c in "()":
            if cur: out.append(cur); cur = ""
            if c in "()": out.append(c)
        else:
            cur += c
    if cur: out.append(cur)
    return out


def fold_tables(license_ids, exception_ids):
    return {alower(i): i for i in license_ids}, {alower(i): i for i in exception_ids}


def spec(s, plus_on_ref, ids, excs):
    """(canonical text, nesting depth) per the property text, or None.  ids/excs: folded id -> official id.
    plus_on_ref: whether 'LicenseRef-x+' is read as well-formed (the text is silent; the check accepts either reading)."""
    toks = tokenize(s)
    out, mode, depth, maxdepth = [], "operand", 0, 0      # modes: operand | license | with | other
    for t in toks:
        f = alower(t)
        if f == "(":
            if mode != "operand": return None
            depth += 1; maxdepth = max(depth, maxdepth); out.append("(")
        elif f == ")":
            if mode not in ("license", "other") or depth == 0: return None
            depth -= 1; out.append(")"); mode = "other"
        elif f in ("and", "or"):
            if mode not in ("license", "other"): return None
            out.append(f.upper()); mode = "operand"
        elif f == "with":
            if mode != "license": return None
            out.append("WITH"); mode = "with"
        elif mode == "with":
            if f not in excs: return None
            out.append(excs[f]); mode = "other"
        elif mode == "operand":
            plus = "+" if t.endswith("+") else ""
            core = t[:-1] if plus else t
            if alower(core).startswith("licenseref-"):
                if not all(c in REF_OK for c in core): return None
                if len(core) == 11: return None            # SPDX: idstring = 1*(ALPHA / DIGIT / "-" / "."), not empty
                if plus and not plus_on_ref: return None
                out.append("LicenseRef-" + core[11:] + plus)
            else:
                if alower(core) not in ids: return None
                out.append(ids[alower(core)] + plus)
            mode = "license"
        else:
            return None
    if mode not in ("license", "other") or depth != 0: return None
    text = ""
    for i, t in enumerate(out):
        if i and not (out[i - 1] == "(" or t == ")"): text += " "
        text += t
    return text, maxdepth


def spec_obs(s, ids, excs):
    """The observation format of the model command l.spec (coq/Run/RunLic.v obs_spec): N | S|<band>|<text>, band 0/1/2 = nesting
    depth <= 100 / 101..200 / > 200.  'LicenseRef-x+' is read as well-formed, as LicSpec.lic_canon does."""
    r = spec(s, True, ids, excs)
    if r is None: return "N"
    return "S|%s|%s" % ("2" if r[1] > 200 else "1" if r[1] > 100 else "0", r[0])


def empty_ref_tokens(s):
    """The tokens of s that are 'LicenseRef-' (any ASCII case) with an EMPTY idstring, optionally followed by one '+'
    (SPDX Annex D wants idstring = 1*(ALPHA / DIGIT / '-' / '.'))."""
    return [t for t in tokenize(s) if alower(t[:-1] if t.endswith("+") else t) == "licenseref-"]
