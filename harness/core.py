"""Common pipeline of every check: tables -> Coq build -> property theorems (Print Assumptions) -> extraction/driver ->
generation -> implementation run + model run -> comparison -> verdict -> evidence.

Runs under python3 (any); the implementation is executed in separate /venv/bin/python processes with PYTHONPATH=/repo/src.
"""
import fcntl, hashlib, importlib, json, os, random, re, subprocess, sys, time

VERIF = os.path.dirname(os.path.dirname(os.path.abspath(__file__)))
REPO = os.environ.get("VERIF_REPO", "/repo")
IMPL_PY = os.environ.get("VERIF_IMPL_PY", "/venv/bin/python")
COQ = os.path.join(VERIF, "coq")
OCAML = os.path.join(VERIF, "ocaml")
GUARD = "PYPA_PACKAGING_VERIF"

FORBIDDEN = (r"\bAdmitted\b|\badmit\b|^\s*(Axiom|Axioms|Parameter|Parameters|Conjecture|Hypothesis|Variable|Variables)\b|"
             r"Unset\s+Guard|Unset\s+Positivity|Unset\s+Universe|bypass_check|type-in-type|impredicative-set|Admit\s+Obligations")
ALLOWED_AXIOMS = set()      # every property theorem is expected to be closed under the global context

TRUSTED_BASE = [
    "Coq 8.16.1 kernel (coqc), including vm_compute; native_compute is not used",
    "axioms: none - every property theorem must print 'Closed under the global context' (checked on this run)",
    "hand-written Gallina model of the code named in DESIGN.md for this property; tied to /repo only by the "
    "correspondence run of this check (same inputs through the implementation and the extracted model)",
    "extraction: Extraction Language OCaml + ExtrOcamlBasic only (no Extract Constant / Extract Inductive of our own); "
    "ocaml/driver.ml (zarith only for reading/printing numbers); a sample is re-evaluated by vm_compute inside Coq on every run",
    "harness: generators, canonicalisation of observations, known-finding matchers (harness/*.py)",
    "CPython runtime behaviour that the model takes as given: re engine, str methods on non-ASCII text, hash(), email package",
]


def sh(cmd, **kw):
    return subprocess.run(cmd, capture_output=True, text=True, **kw)


def enc(s):
    return " ".join(str(ord(c)) for c in s)


def dec(t):
    t = t.strip()
    return "".join(chr(int(x)) for x in t.split()) if t else ""


# ------------------------------------------------------------------------------------------------ build

class Lock:
    def __enter__(self):
        os.makedirs(os.path.join(VERIF, ".build"), exist_ok=True)
        self.f = open(os.path.join(VERIF, ".build", "lock"), "w")
        fcntl.flock(self.f, fcntl.LOCK_EX)
        return self

    def __exit__(self, *a):
        fcntl.flock(self.f, fcntl.LOCK_UN)
        self.f.close()


def impl_env(extra=None):
    env = dict(os.environ)
    env.update({"PYTHONPATH": os.path.join(REPO, "src"), "PYTHONHASHSEED": "0", GUARD: "1", "PYTHONDONTWRITEBYTECODE": "1"})
    if extra:
        env.update(extra)
    return env


def gen_tables():
    """Re-extract the data tables from the working tree into coq/Gen/*.v (only rewritten when content changes)."""
    r = sh([IMPL_PY, os.path.join(VERIF, "harness", "tables.py"), os.path.join(COQ, "Gen")], env=impl_env())
    return r.returncode == 0, (r.stdout + r.stderr)[-3000:]


def coq_sources():
    out = []
    for root, _, files in os.walk(COQ):
        for f in files:
            if f.endswith(".v") and not f.startswith("."):
                out.append(os.path.join(root, f))
    return sorted(out)


def grep_forbidden():
    bad = []
    rx = re.compile(FORBIDDEN)
    for p in coq_sources():
        src = open(p).read()
        src_nc = re.sub(r"\(\*.*?\*\)", lambda m: " " * len(m.group(0)), src, flags=re.S)
        in_section = 0
        for n, line in enumerate(src_nc.splitlines(), 1):
            if re.match(r"\s*Section\b", line): in_section += 1
            if re.match(r"\s*End\b", line) and in_section: in_section -= 1
            m = rx.search(line)
            if m:
                if m.group(1) in ("Variable", "Variables", "Hypothesis") and in_section:
                    continue
                bad.append(f"{os.path.relpath(p, COQ)}:{n}: {line.strip()[:100]}")
    return bad


def build(targets=None, jobs=16):
    """Full .vo build (never -vos) + extraction + driver.  Returns dict(ok, log, wall)."""
    t0 = time.time()
    with Lock():
        ok_t, log_t = gen_tables()
        if not ok_t:
            return {"ok": False, "stage": "tables", "log": log_t, "wall": time.time() - t0}
        proj = os.path.join(COQ, "_CoqProject")
        files = sorted(os.path.relpath(p, COQ) for p in coq_sources() if "/Extract/" not in p and "/cases/" not in p)
        want = "-R . PV\n" + "\n".join(files) + "\n"
        if not os.path.exists(proj) or open(proj).read() != want:
            open(proj, "w").write(want)
        if not os.path.exists(os.path.join(COQ, "Makefile")) or os.path.getmtime(os.path.join(COQ, "Makefile")) < os.path.getmtime(proj):
            sh(["coq_makefile", "-f", "_CoqProject", "-o", "Makefile"], cwd=COQ)
        r = sh(["timeout", "1500", "make", "-k", f"-j{jobs}"] + (targets or []), cwd=COQ)
        log = (r.stdout + r.stderr)
        failed = re.findall(r"^File \"\./([^\"]+)\", line (\d+).*?\nError:?(.*?)(?:\n\n|\Z)", log, re.S | re.M)
        res = {"ok": r.returncode == 0, "stage": "coq", "log": log[-4000:], "failed_files": sorted({f for f, _, _ in failed}),
               "errors": [f"{f}:{l}: {e.strip()[:300]}" for f, l, e in failed][:10]}
        # extraction + driver: needs only the Run/ layer, which holds definitions.  A Run/ file that does not compile must not leave a stale driver.
        if any(f.startswith("Run/") for f in res["failed_files"]) or (not res["ok"] and not os.path.exists(os.path.join(COQ, "Run", "Dispatch.vo"))):
            try: os.remove(os.path.join(OCAML, "driver"))
            except OSError: pass
            res.update(ok=False, stage="extraction", log="the observation layer does not compile: " + "; ".join(res["errors"])[:2000])
            res["wall"] = time.time() - t0
            return res
        stamp = os.path.join(OCAML, "gen", "stamp")
        h = hashlib.sha256()
        for p in coq_sources():
            if "/Properties/" in p or "/cases/" in p: continue
            h.update(open(p, "rb").read())
        h.update(open(os.path.join(OCAML, "driver.ml"), "rb").read())
        digest = h.hexdigest()
        if not (os.path.exists(stamp) and open(stamp).read() == digest and os.path.exists(os.path.join(OCAML, "driver"))):
            r2 = sh(["timeout", "600", os.path.join(OCAML, "build.sh")])
            if r2.returncode != 0:
                res.update(ok=False, stage="extraction", log=(r2.stdout + r2.stderr)[-3000:] + open(os.path.join(OCAML, "gen", "extract.log")).read()[-2000:])
                res["wall"] = time.time() - t0
                return res
            open(stamp, "w").write(digest)
        res["wall"] = time.time() - t0
        return res


def prove(pid):
    """Re-check Properties/<pid>.v and read Print Assumptions for every theorem in it."""
    t0 = time.time()
    path = os.path.join(COQ, "Properties", pid + ".v")
    src = open(path).read()
    src_nc = re.sub(r"\(\*.*?\*\)", "", src, flags=re.S)
    theorems = re.findall(r"^\s*(?:Theorem|Corollary)\s+(\w+)", src_nc, re.M)
    printed = re.findall(r"^\s*Print Assumptions\s+(\w+)", src_nc, re.M)
    with Lock():
        r = sh(["timeout", "900", "coqc", "-R", ".", "PV", os.path.join("Properties", pid + ".v")], cwd=COQ)
    out = r.stdout
    closed = out.count("Closed under the global context")
    axioms = re.findall(r"^Axioms:\n(.*?)(?:\n\S|\Z)", out, re.S | re.M)
    ok = r.returncode == 0 and set(theorems) <= set(printed) and closed == len(printed) and not axioms
    why = ""
    if r.returncode != 0: why = "Properties/%s.v does not check: %s" % (pid, (r.stderr or r.stdout)[-1500:])
    elif not set(theorems) <= set(printed): why = "theorem without Print Assumptions: %s" % sorted(set(theorems) - set(printed))
    elif axioms or closed != len(printed): why = "assumptions reported: %s" % axioms
    return {"ok": ok, "theorems": theorems, "closed": closed, "axioms": axioms, "why": why, "wall": time.time() - t0,
            "cmd": f"make -C coq (full .vo build) && coqc -R . PV Properties/{pid}.v  [Print Assumptions under every theorem]"}


def coqchk(pid):
    """Independent re-check of the compiled property file and everything it depends on (thorough tier); reports the axioms coqchk lists."""
    t0 = time.time()
    r = sh(["timeout", "1800", "coqchk", "-silent", "-o", "-R", ".", "PV", "PV.Properties." + pid], cwd=COQ)
    out = r.stdout + r.stderr
    m = re.search(r"\* Axioms:(.*?)\n\s*\n\* Constants/Inductives relying on type-in-type:(.*?)\n\s*\n\* Constants/Inductives relying on unsafe \(co\)fixpoints:(.*?)\n\s*\n\* Inductives whose positivity is assumed:(.*?)\n", out, re.S)
    fields = [x.strip() for x in m.groups()] if m else None
    ok = r.returncode == 0 and fields is not None and all(x == "<none>" for x in fields)
    return {"ok": ok, "axioms": fields[0] if fields else "?", "summary": fields, "wall": round(time.time() - t0, 1), "log": out[-1500:] if not ok else ""}


# ------------------------------------------------------------------------------------------------ running cases

def run_model(cases):
    """cases: list of (cmd, [args]).  Returns list of observation strings."""
    if not cases: return []
    inp = "\n".join("\t".join([c] + [enc(a) for a in args]) for c, args in cases) + "\n"
    r = subprocess.run(["bash", "-c", "ulimit -s unlimited 2>/dev/null; exec " + os.path.join(OCAML, "driver")], input=inp, capture_output=True, text=True)
    lines = r.stdout.split("\n")
    if lines and lines[-1] == "": lines.pop()
    if r.returncode != 0 or len(lines) != len(cases):
        raise RuntimeError(f"model driver failed: rc={r.returncode} lines={len(lines)}/{len(cases)} {r.stderr[-500:]}")
    return [dec(l) if not l.startswith("!") else l for l in lines]


def run_impl(module, cases, env_extra=None, chunk=None):
    """Runs harness/impl/<module>.py observe(cmd, args) in the implementation interpreter."""
    if not cases: return []
    inp = "\n".join(json.dumps([c, args]) for c, args in cases) + "\n"
    r = subprocess.run([IMPL_PY, os.path.join(VERIF, "harness", "impl_runner.py"), module], input=inp, capture_output=True, text=True,
                       env=impl_env(env_extra), cwd="/")
    lines = r.stdout.split("\n")
    if lines and lines[-1] == "": lines.pop()
    if r.returncode != 0 or len(lines) != len(cases):
        raise RuntimeError(f"implementation runner failed: rc={r.returncode} lines={len(lines)}/{len(cases)} {r.stderr[-1500:]}")
    return [json.loads(l) for l in lines]


def coq_str(s):
    return "[" + ";".join(str(ord(c)) for c in s) + "]"


def kernel_check(cases, expected, tag):
    """Re-evaluate a sample inside Coq with vm_compute and require the extracted driver's answers (guards extraction + driver)."""
    d = os.path.join(COQ, "cases")
    os.makedirs(d, exist_ok=True)
    path = os.path.join(d, f"K_{tag}.v")
    body = ["From Coq Require Import List NArith.", "Import ListNotations.", "Require Import Dispatch.", "Open Scope N_scope.",
            "Definition cases : list (list N * list (list N)) := ["]
    body.append(";\n".join("(%s, [%s])" % (coq_str(c), ";".join(coq_str(a) for a in args)) for c, args in cases))
    body.append("].")
    body.append("Definition expected : list (list N) := [" + ";\n".join(coq_str(e) for e in expected) + "].")
    body.append("Goal map (fun c => run (fst c) (snd c)) cases = expected. Proof. vm_compute. reflexivity. Qed.")
    open(path, "w").write("\n".join(body) + "\n")
    r = subprocess.run(["bash", "-c", f"ulimit -s unlimited 2>/dev/null; cd {COQ} && timeout 600 coqc -R . PV cases/K_{tag}.v"], capture_output=True, text=True)
    for ext in (".vo", ".vok", ".vos", ".glob"):
        try: os.remove(path[:-2] + ext)
        except OSError: pass
    try: os.remove(os.path.join(d, f".K_{tag}.aux"))
    except OSError: pass
    return r.returncode == 0, (r.stdout + r.stderr)[-1500:]


# ------------------------------------------------------------------------------------------------ findings

def load_findings(pid):
    """known_findings.txt: 'finding: property=<id> id=<Dk> matcher=<name> witness=<json> <what fails>'  |  'fixed: property=<id> <commit> <what>'"""
    out = []
    path = os.path.join(VERIF, "known_findings.txt")
    if not os.path.exists(path): return out
    for line in open(path):
        line = line.rstrip("\n")
        if not line.startswith("finding:"): continue
        m = re.match(r"finding: property=(\S+) id=(\S+) matcher=(\S+) witness=(.*?) :: (.*)$", line)
        if not m: raise RuntimeError("malformed known_findings line: " + line)
        if m.group(1) != pid: continue
        out.append({"property": m.group(1), "id": m.group(2), "matcher": m.group(3), "witness": json.loads(m.group(4)), "what": m.group(5)})
    return out


# ------------------------------------------------------------------------------------------------ the check

class Case:
    __slots__ = ("stream", "cmd", "args", "kind", "note")

    def __init__(self, stream, cmd, args, kind="model", note=None):
        self.stream, self.cmd, self.args, self.kind, self.note = stream, cmd, list(args), kind, note

    def key(self):
        return (self.cmd, tuple(self.args))

    def to_json(self):
        return {"stream": self.stream, "cmd": self.cmd, "args": self.args, "kind": self.kind}


def run_check(pid, tier, seed, replay=None):
    t0 = time.time()
    mod = importlib.import_module("props." + pid.lower())
    findings = load_findings(pid)
    matchers = {f["id"]: getattr(mod, f["matcher"]) for f in findings}
    violations, notes = [], []

    b = build()
    bad = grep_forbidden()
    proof = {"ok": False, "theorems": [], "closed": 0, "axioms": [], "why": "build failed", "cmd": "", "wall": 0}
    if os.path.exists(os.path.join(OCAML, "driver")) or b["ok"]:
        proof = prove(pid)
    proof_broken = bool(bad) or not proof["ok"]
    if not b["ok"] and proof["ok"]:
        # some other property's file is broken; this property's theorems and the model still build
        notes.append("build reported failures outside this property: " + ", ".join(b.get("failed_files", [])))
    driver_ok = os.path.exists(os.path.join(OCAML, "driver")) and b.get("stage") != "extraction"

    rng = random.Random((seed * 1000003) ^ int(hashlib.sha256(pid.encode()).hexdigest()[:8], 16))
    if replay:
        rj = json.load(open(replay))
        cases = [Case(c["stream"], c["cmd"], c["args"], c.get("kind", "model")) for c in rj["cases"]]
    else:
        cases = []
        for f in findings:
            w = f["witness"]
            cases.append(Case("known-finding:" + f["id"], w["cmd"], w["args"], w.get("kind", "model")))
        corpus = os.path.join(VERIF, "harness", "corpus", pid + ".jsonl")
        if os.path.exists(corpus):
            for line in open(corpus):
                if line.strip():
                    c = json.loads(line); cases.append(Case("corpus", c["cmd"], c["args"], c.get("kind", "model")))
        cases += list(mod.streams(rng, tier))
        if proof_broken and tier == "quick":
            # failing-input search after a proof break: more generated cases (further seeds), bounded so that the check still ends in minutes
            notes.append("proof obligation broken: failing-input search with 3 additional generation seeds")
            for extra_seed in (1, 2, 3):
                cases += list(mod.streams(random.Random(rng.randrange(2 ** 32) + extra_seed), tier))
    # de-duplicate, keep order
    seen, uniq = set(), []
    for c in cases:
        k = (c.kind,) + c.key()
        if k in seen: continue
        seen.add(k); uniq.append(c)
    cases = uniq

    pairs = [(c.cmd, c.args) for c in cases]
    impl = run_impl(mod.IMPL_MODULE, pairs, getattr(mod, "IMPL_ENV", None))
    model_idx = [i for i, c in enumerate(cases) if c.kind == "model"]
    model = [None] * len(cases)
    if driver_ok:
        mo = run_model([pairs[i] for i in model_idx])
        for i, o in zip(model_idx, mo): model[i] = o
    else:
        notes.append("model driver unavailable (extraction failed): only the direct law oracles were evaluated")

    streams, nontrivial, known_hits, samples = {}, set(), {f["id"]: 0 for f in findings}, {}
    compare = getattr(mod, "compare", None)
    is_nontrivial = getattr(mod, "nontrivial", lambda c, i: not (isinstance(i, str) and (i == "E" or i.startswith("E:") or i.startswith("!"))))
    for c, i, m in zip(cases, impl, model):
        streams[c.stream] = streams.get(c.stream, 0) + 1
        samples.setdefault(c.stream, {"cmd": c.cmd, "args": c.args, "impl": i, "model": m})
        if is_nontrivial(c, i): nontrivial.add(c.key())
        if c.kind == "law":
            diff = None if i == "ok" else f"law violated on the implementation: {i}"
        elif m is None:
            diff = None
        elif compare is not None:
            diff = compare(c, i, m)
        else:
            diff = None if i == m else "implementation differs from model"
        hit = [fid for fid, fn in matchers.items() if fn(c, i, m)]
        if hit:
            for fid in hit: known_hits[fid] += 1
            continue
        if diff:
            violations.append({"kind": "failing-input", "why": diff, "case": c.to_json(), "impl": i, "model": m})

    # property-specific multi-process checks (e.g. transcripts under several hash seeds)
    extra = getattr(mod, "extra_checks", None)
    if extra is not None:
        if replay and rj.get("extra"):
            ex = extra(rng, tier, sys.modules[__name__], replay=rj)
        elif not replay:
            ex = extra(rng, tier, sys.modules[__name__], replay=None)
        else:
            ex = None
        if ex:
            violations += ex.get("violations", [])
            for k, v in ex.get("streams", {}).items(): streams[k] = streams.get(k, 0) + v
            for smp in ex.get("samples", []): samples.setdefault("extra:%d" % len(samples), smp)
            nontrivial |= set(ex.get("nontrivial", []))
            extra_evals = ex.get("evaluations", 0)
        else:
            extra_evals = 0
    else:
        extra_evals = 0

    # kernel re-evaluation of a sample of the model answers
    kernel = {"checked": 0, "ok": True}
    if driver_ok and not replay:
        ks = [i for i in model_idx if len(json.dumps(pairs[i])) < 400][: (150 if tier == "quick" else 400)]
        ks += [n for n, c in enumerate(cases) if c.kind == "model" and any(v["case"] == c.to_json() for v in violations[:20])]
        ks = sorted(set(ks))
        if ks:
            okk, logk = kernel_check([pairs[i] for i in ks], [model[i] for i in ks], pid)
            kernel = {"checked": len(ks), "ok": okk}
            if not okk:
                violations.append({"kind": "extraction-mismatch", "why": "vm_compute inside Coq disagrees with the extracted driver", "log": logk,
                                   "no_failing_input": True})

    for f in findings:
        if known_hits[f["id"]] > 0:
            print(f"KNOWN-FINDING: property={pid} {f['id']}: {f['what']} (witness {json.dumps(f['witness']['args'])[:160]}; {known_hits[f['id']]} instance(s) this run)")
        else:
            notes.append(f"known finding {f['id']} did not reproduce on this run (its witness no longer fails)")

    chk = None
    if tier == "thorough" and proof["ok"] and not replay:
        chk = coqchk(pid)
        if not chk["ok"]:
            violations.append({"kind": "coqchk", "why": "coqchk -o does not confirm the property file axiom-free: %s %s" % (chk["summary"], chk["log"][-500:]), "no_failing_input": True})
    if bad:
        violations.append({"kind": "forbidden-construct", "why": "; ".join(bad[:5]), "no_failing_input": True})
    if not proof["ok"]:
        found = any(v["kind"] == "failing-input" for v in violations)
        violations.append({"kind": "proof-broken", "why": proof["why"] or b.get("log", "")[-1500:], "errors": b.get("errors", []),
                           "theorems": proof["theorems"], "no_failing_input": not found})

    os.makedirs(os.path.join(VERIF, "replay"), exist_ok=True)
    for f in os.listdir(os.path.join(VERIF, "replay")):
        if f.startswith(pid + "-") and not replay: os.remove(os.path.join(VERIF, "replay", f))
    status = 0
    # concrete failing inputs first; the proof-break / correspondence entries carry "no-failing-input-found" only when none exists
    violations.sort(key=lambda v: 0 if v["kind"] == "failing-input" else 1)
    for n, v in enumerate(violations[:8]):
        path = os.path.join(VERIF, "replay", f"{pid}-{n}.json")
        rj = dict(v, property=pid, seed=seed, tier=tier, cases=([v["case"]] if "case" in v and not v.get("extra") else []),
                  replay_cmd=f"./check {pid} --replay {path}")
        json.dump(rj, open(path, "w"), indent=1, ensure_ascii=True)
        print(f"VIOLATION property={pid} replay={path}" + (" no-failing-input-found" if v.get("no_failing_input") else ""))
        status = 1

    nthm = len(proof["theorems"])
    ev = {
        "property_id": pid, "tier": tier, "seed": seed, "level": "proof", "wall_s": round(time.time() - t0, 2), "violations": len(violations),
        "coverage": {
            "obligations": max(nthm, 1), "discharged": proof["closed"] if proof["ok"] else min(proof["closed"], max(nthm - 1, 0)),
            "checker_cmd": proof["cmd"] or "make -C coq",
            "trusted_base": TRUSTED_BASE + list(getattr(mod, "TRUSTED_EXTRA", [])),
            "theorems": proof["theorems"], "axioms_reported": proof["axioms"], "forbidden_constructs": bad,
            "build_ok": b["ok"], "build_wall_s": round(b.get("wall", 0), 1),
            "evaluations": len(cases) + extra_evals, "distinct_nontrivial": len(nontrivial),
            "rule": getattr(mod, "RULE", "generated cases; non-trivial = the implementation returned a value rather than its rejection"),
            "streams": streams, "traces_validated_against_impl": len(model_idx),
            "kernel_reevaluated": kernel, "coqchk": chk, "known_finding_instances": known_hits,
            "samples": list(samples.values())[:12], "exhaustive": False, "notes": notes,
        },
        "assumptions": list(getattr(mod, "ASSUMPTIONS", [])) + ["model tied to the code only through the correspondence run recorded here"],
    }
    os.makedirs(os.path.join(VERIF, "evidence"), exist_ok=True)
    # a replay is a diagnostic run on one stored case: it must not overwrite the evidence of the last real run
    # ... and neither must a run against a scratch tree (VERIF_REPO = a seeded change or a refactoring under test)
    ev_path = os.path.join(VERIF, "evidence", pid + (".replay.json" if replay else ".scratch.json" if os.path.realpath(REPO) != "/repo" else ".json"))
    json.dump(ev, open(ev_path, "w"), indent=1, ensure_ascii=True)
    try:
        import jsonschema
        jsonschema.validate(ev, json.load(open("/root/.vp/EVIDENCE.schema.json")))
    except ImportError:
        pass
    except Exception as e:      # an invalid evidence file is a bug of the machinery; make it loud but do not fake a verdict
        print("evidence file does not validate:", str(e)[:300], file=sys.stderr)
    print(f"{pid}: {len(cases)} cases ({len(model_idx)} through the model), {len(violations)} violation(s), "
          f"theorems {proof['closed']}/{nthm} closed, proofs {'ok' if proof['ok'] else 'BROKEN'}, {time.time() - t0:.1f}s")
    return status
