#!/usr/bin/env python3
"""Regenerates MANIFEST.json from the table below (kept valid at all times)."""
import json, os
V = os.path.dirname(os.path.dirname(os.path.abspath(__file__)))
props = [json.loads(l) for l in open(os.path.join(V, "properties.jsonl"))]
CLAIMED = {
 "C01": ("Coq theorems over the Gallina model of _cmpkey + CPython rich comparison (all six operators = the PEP 440 order, total preorder, hash agreement) for all accepted strings; model tied to the code by differential runs of Version comparison/sorting on structured and mutated spellings through the extracted model, plus direct order laws on the implementation",
         "7.C01", "Coq proof (induction over keys/lists) + extracted-model correspondence"),
 "C02": ("Coq theorems: scanner soundness/completeness for the whole PEP 440 surface grammar, Version(str(v)) = v for unbounded components, public/base_version, canonicalize_version complete invariant/idempotent/reparse/pass-through; tied to the code by differential runs on spellings and mutations",
         "7.C02", "Coq proof (parser soundness+completeness, round trip) + extracted-model correspondence"),
 "C03": ("Coq theorem: for every operator and every admitted version form, the string-level model of Specifier.contains (the _compare_* methods as written: re-parsing of public/base strings, canonicalize_version, _version_split/_pad_version/_version_join) equals the declarative PEP 440 operator semantics on structured versions; tied to the code by differential runs of contains() on operator x spelling x related candidates, against both the code model and the declarative semantics",
         "7.C03", "Coq proof (model = declarative semantics) + extracted-model correspondence"),
 "C04": ("Coq theorems: != is the complement of ==, ~= is >= and prefix, equal candidates and local labels are irrelevant for every operator but ===, closure/cover/containment/exclusion laws; plus each law evaluated directly on real Specifier objects for jointly generated related tuples",
         "7.C04", "Coq proof of the laws on the model + direct law oracles on the implementation"),
 "C12": ("Coq theorems: soundness of both scanners w.r.t. the PEP 440 grammar (accepted => rendering of a well-formed parse tree; operator/form table), ASCII-only, completeness on greedy-normal-form spellings; the acceptance languages are compared with the implementation over bounded-exhaustive strings on class-representative alphabets and generated/mutated inputs; the remaining completeness half is tested, not proved (stated in the file)",
         "7.C12", "Coq proof (scanner soundness / gnf-completeness) + bounded-exhaustive correspondence"),
 "C13": ("Coq theorems for all strings: canonicalize_name is the run-collapse + lower-case fold (characterisation, shape, idempotence, same canonical form iff equal after folding), validate=True accepts exactly the core-metadata name language, is_normalized_name iff valid and fixed point; tied to the code by bounded-exhaustive and structured name streams and per-code-point sweeps of the regex/str.lower tables",
         "7.C13", "Coq proof (string induction) + extracted-model correspondence incl. exhaustive sweeps"),
 "C14": ("Coq theorems: wheel/sdist encode-decode round trips (canonical name, identical version, build tuple, cartesian product of tags), parse_tag(str(t)) = {t}, Tag case-insensitivity, each rejection class gives the documented error and nothing else; tied to the code by encode/decode correspondence on generated components and structural damage",
         "7.C14", "Coq proof (round trip / rejection lemmas) + extracted-model correspondence"),
 "C10": ("Coq theorems: Version equality is an equivalence, equal versions have identical keys (hence equal hashes) and are interchangeable in every comparison; Specifier equality/hash are functions of the canonical key and equal specifiers match the same candidates under every pre-release setting (through the denotation of the canonical text); for all six types the laws are also evaluated directly on real objects built from spelling/zero/case/order/normalisation variants; the SpecifierSet/Marker/Requirement/Tag theorems live with their own models",
         "7.C10", "Coq proof (key functions, congruence) + direct law oracles on the implementation + model correspondence of ==" ),
 "C11": ("Coq theorems: on the modelled paths the failure points of the real code are explicit results (Escaped / FCrash / undefined int()) and are proved unreachable (Specifier.contains never escapes for accepted specifiers, every int() in Version is applied to digits, canonicalize_version total, filename parsers give a value or the documented error); every public entry point is additionally called on valid, mutated, arbitrary-Unicode and byte inputs and the class of any escaping exception is checked (testing, not proof, for the runtime part)",
         "7.C11", "Coq proof of unreachability of modelled failure points + exception-class law oracle on malformed inputs"),
 "C20": ("Coq theorems for what a functional model can carry (string forms built by sorting are invariant under permutation of the members; the state-machine and permutation theorems of the set, metadata and platform models); the runtime half (hash seed, call order, repetition, argument mutation) is exercised by running one call battery in separate processes under several PYTHONHASHSEED values and call orders and comparing transcripts, plus supply-order laws on real objects",
         "7.C20", "Coq proof of permutation/history invariance on the models + multi-process transcript comparison (testing for the CPython-heap part)"),
 "C05": ("Coq theorems on the string-level SpecifierSet model (members = first occurrences under _canonical_spec in an arbitrary permutation): conjunction incl. the empty set, invariance under permutation/duplication/spacing of clauses, & is intersection, commutative and associative incl. the override table and its error cell, & equals the parse of the concatenation, override carried, str() deterministic and reparsing to an equal set (outside the === -with-comma finding); tied to the code by stack-program correspondence runs over real Specifier/SpecifierSet objects under varying hash seeds",
         "7.C05", "Coq proof (permutation invariance, set algebra) + extracted-model correspondence"),
 "C06": ("Coq theorems: three-layer pre-release gate for Specifier and SpecifierSet, finals unaffected, enabling monotone, filter() is the exact filter in input order on the very input items, both fall-back cases as iff, installed=True judged by base version, outputs depend only on the latest override (induction over operation sequences), chained member filters commute; tied to the code by operation-sequence correspondence incl. item identity",
         "7.C06", "Coq proof (state machine invariant by induction over op lists) + extracted-model correspondence"),
 "C17": ("Coq theorems on the model of Metadata.from_raw/from_email and the _Validator descriptor: acceptance iff the conjunction of the statement, otherwise one group naming exactly the offending fields (for every iteration order of the key set), enriched values per field, absent optional = None, lazy validation defers the same errors, every read sequence returns the conversion of the original raw value (cache invariant by induction), from_email = unparsed keys ++ raw errors; the 'added in' table is regenerated from the working tree on every run and proved equal to the core-metadata table; component validators (SpecifierSet, Requirement, licence, content type, pathlib) enter as oracles answered by the real components",
         "7.C17", "Coq proof (acceptance characterisation, cache invariant by induction) + generated-table lemma + extracted-model correspondence"),
 "C18": ("Coq theorems on the post-processing of parse_email (after the email package): partition of header names between the two dicts, nothing invented or dropped, typing per field kind, document order, keyword splitting, Project-URL pairs, the description/body rule, round trip of a well-formed RawMetadata under the stated oracle assumption about the email parser; the header list and payload are obtained from the same email calls the implementation makes",
         "7.C18", "Coq proof (partition / no-loss by induction over header lists) + extracted-model correspondence; email package as oracle"),
 "C19": ("Coq theorems on the statement-by-statement string-level model of canonicalize_license_expression (padding, split, lower, the two parenthesis guards, eval() of the False/and/or skeleton as an automaton with a depth counter, final identifier/WITH pass, output assembly): it computes the SPDX specification for every input (accept iff the token sequence is in the SPDX grammar, canonical form, idempotent, case/layout insensitive, only the documented exception); the SPDX tables are regenerated from the working tree on every run and the invariants the proofs need are re-proved by complete enumeration of the table; eval() itself is compared with the automaton exhaustively over all guard-passing skeletons up to a length bound on every run",
         "7.C19", "Coq proof (model = SPDX grammar automaton, idempotence) + generated-table lemmas + extracted-model correspondence incl. exhaustive eval sweep"),
}
NA_REASON = "check not built yet in this revision (planned, see DESIGN.md section 7); nothing is claimed"
checks, na = [], []
for p in props:
    pid = p["id"]
    if pid in CLAIMED:
        text, ref, tech = CLAIMED[pid]
        checks.append({
            "property_id": pid, "quick_cmd": f"./check {pid} --tier quick", "thorough_cmd": f"./check {pid} --tier thorough",
            "evidence_file": f"/verif/evidence/{pid}.json", "replay_cmd_template": f"./check {pid} --replay {{path}}", "engine": "coq-model+correspondence",
            "level_claimed": {"category": "proof", "text": text, "design_ref": ref},
            "level_note": "Trusted: Coq 8.16.1 kernel (vm_compute, no native_compute); no axioms (Print Assumptions must say 'Closed under the global context' for every theorem of coq/Properties/%s.v, checked on each run); the hand-written Gallina model, tied to /repo by the correspondence run (generator quality bounds it); extraction with ExtrOcamlBasic only + ocaml/driver.ml, cross-checked against vm_compute on a sample each run; CPython runtime (re, str, hash) as given." % pid,
            "technique": tech})
    else:
        na.append({"property_id": pid, "reason": NA_REASON})
m = {"version": 1, "setup_cmd": "./setup.sh",
     "hooks": {"guard": "PYPA_PACKAGING_VERIF", "enable": "no hooks are needed: checks run the unmodified package from /repo/src (PYTHONPATH) in /venv/bin/python; the variable is set for the runs but nothing in /repo reads it",
               "baseline_off_cmd": "cd /repo && /venv/bin/python -m pytest -ra -q -p no:cacheprovider --timeout=900 --continue-on-collection-errors",
               "source_commits": [], "add_only": True},
     "engines": [{"name": "coq-model+correspondence", "path": "/verif/coq, /verif/ocaml, /verif/harness", "serves_properties": sorted(CLAIMED),
                  "kind_free_text": "Gallina model + Coq theorems (coq/Properties/Cxx.v), extracted OCaml model run against the implementation on generated inputs"}],
     "checks": checks, "not_applicable": na,
     "notes": "Genuine defects repaired in /repo as 'fix:' commits are listed in known_findings.txt ('fixed:' lines); remaining findings are 'finding:' lines there."}
json.dump(m, open(os.path.join(V, "MANIFEST.json"), "w"), indent=1)
print(len(checks), "checks,", len(na), "not applicable")
