#!/usr/bin/env python3
"""Regenerates MANIFEST.json from the table below (kept valid at all times)."""
import json, os
V = os.path.dirname(os.path.dirname(os.path.abspath(__file__)))
props = [json.loads(l) for l in open(os.path.join(V, "properties.jsonl"))]
CLAIMED = {
 "C01": ("Coq theorems over the Gallina model of _cmpkey + CPython rich comparison (all six operators = the PEP 440 order, total preorder, hash agreement) for all accepted strings; model tied to the code by differential runs of Version comparison/sorting on structured and mutated spellings through the extracted model, plus direct order laws on the implementation",
         "7.C01", "Coq proof (induction over keys/lists) + extracted-model correspondence"),
 "C02": ("Coq theorems: scanner soundness/completeness for the whole PEP 440 surface grammar, Version(str(v)) = v for unbounded components, public/base_version, canonicalize_version complete invariant/idempotent/reparse/pass-through; tied to the code by differential runs on spellings and mutations",
         "7.C02", "Coq proof (parser soundness+completeness, round trip) + extracted-model correspondence"),
 "C03": ("Coq theorem: for every operator and every admitted version form, the string-level model of Specifier.contains (the _compare_* methods as written: re-parsing of public/base strings, canonicalize_version, _version_split/_pad_version/_version_join) equals the declarative PEP 440 operator semantics on structured versions; tied to the code by differential runs of contains() on operator x spelling x related candidates, against both the code model and the declarative semantics",
         "7.C03", "Coq proof (model = declarative semantics) + extracted-model correspondence"),
 "C04": ("Coq theorems: != is the complement of ==, ~= is >= and prefix, equal candidates and local labels are irrelevant for every operator but ===, closure/cover/containment/exclusion laws; plus each law evaluated directly on real Specifier objects for jointly generated related tuples",
         "7.C04", "Coq proof of the laws on the model + direct law oracles on the implementation"),
 "C12": ("Coq theorems: soundness of both scanners w.r.t. the PEP 440 grammar (accepted => rendering of a well-formed parse tree; operator/form table), ASCII-only, completeness on greedy-normal-form spellings; the acceptance languages are compared with the implementation over bounded-exhaustive strings on class-representative alphabets and generated/mutated inputs; the remaining completeness half is tested, not proved (stated in the file)",
         "7.C12", "Coq proof (scanner soundness / gnf-completeness) + bounded-exhaustive correspondence"),
}
NA_REASON = "check not built yet in this revision (planned, see DESIGN.md section 7); nothing is claimed"
checks, na = [], []
for p in props:
    pid = p["id"]
    if pid in CLAIMED:
        text, ref, tech = CLAIMED[pid]
        checks.append({
            "property_id": pid, "quick_cmd": f"./check {pid} --tier quick", "thorough_cmd": f"./check {pid} --tier thorough",
            "evidence_file": f"/verif/evidence/{pid}.json", "replay_cmd_template": f"./check {pid} --replay {{path}}", "engine": "coq-model+correspondence",
            "level_claimed": {"category": "proof", "text": text, "design_ref": ref},
            "level_note": "Trusted: Coq 8.16.1 kernel (vm_compute, no native_compute); no axioms (Print Assumptions must say 'Closed under the global context' for every theorem of coq/Properties/%s.v, checked on each run); the hand-written Gallina model, tied to /repo by the correspondence run (generator quality bounds it); extraction with ExtrOcamlBasic only + ocaml/driver.ml, cross-checked against vm_compute on a sample each run; CPython runtime (re, str, hash) as given." % pid,
            "technique": tech})
    else:
        na.append({"property_id": pid, "reason": NA_REASON})
m = {"version": 1, "setup_cmd": "./setup.sh",
     "hooks": {"guard": "PYPA_PACKAGING_VERIF", "enable": "no hooks are needed: checks run the unmodified package from /repo/src (PYTHONPATH) in /venv/bin/python; the variable is set for the runs but nothing in /repo reads it",
               "baseline_off_cmd": "cd /repo && /venv/bin/python -m pytest -ra -q -p no:cacheprovider --timeout=900 --continue-on-collection-errors",
               "source_commits": [], "add_only": True},
     "engines": [{"name": "coq-model+correspondence", "path": "/verif/coq, /verif/ocaml, /verif/harness", "serves_properties": sorted(CLAIMED),
                  "kind_free_text": "Gallina model + Coq theorems (coq/Properties/Cxx.v), extracted OCaml model run against the implementation on generated inputs"}],
     "checks": checks, "not_applicable": na,
     "notes": "Genuine defects repaired in /repo as 'fix:' commits are listed in known_findings.txt ('fixed:' lines); remaining findings are 'finding:' lines there."}
json.dump(m, open(os.path.join(V, "MANIFEST.json"), "w"), indent=1)
print(len(checks), "checks,", len(na), "not applicable")
