"""Marker formula generator shared by C07 and C09.  Every random choice comes from the rng passed in.

A formula is the PEP 508 grammar tree:   expr = ("or", [conj, ...])   conj = ("and", [prim, ...])
                                          prim = ("atom", lhs, op, rhs) | ("paren", expr)
                                          side = ("var", canonical_name) | ("lit", text)
render(rng, f, layout) produces one of the texts of f: random whitespace (space/tab, only where the tokenizer needs none it
may be empty), either quote style (the one the literal does not contain), PEP 345 dotted spellings, redundant parentheses.
"""

VARS = ["python_version", "python_full_version", "os_name", "sys_platform", "platform_release", "platform_system",
        "platform_version", "platform_machine", "platform_python_implementation", "implementation_name",
        "implementation_version", "extra"]
ALT = {"os_name": ["os.name"], "sys_platform": ["sys.platform"], "platform_version": ["platform.version"],
       "platform_machine": ["platform.machine"],
       "platform_python_implementation": ["platform.python_implementation", "python_implementation"]}
OPS = ["==", "!=", "<", "<=", ">", ">=", "~=", "===", "in", "not in"]
OPS_W = ["==", "!=", "<", "<=", ">", ">=", "in", "not in"] * 4 + ["~=", "==="]     # the two operators without a string fallback are rarer

VERSIONISH = ["3.8", "3.10", "3.10.1", "2.7", "1.0a1", "1.0", "1", "3", "3.*", "3.8.*", "1.0+l", "1.0.post1", "2!1.0", "1.0.dev0",
              " 1.0 ", "v1.0", "1.0-1", "3.8.0", "1.0RC1", "1.0.0", "3.9", "3.12.0+local", "1.0+L", "0", "1.0a1.dev0", "1.0.*"]
NAMEISH = ["linux", "win32", "posix", "Foo_Bar", "foo-bar", "foo.bar", "FOO--BAR", "foo", "bar", "x86_64", "CPython", "cpython",
           "a", "b", "ab", "abc", "bc", "", "foo_bar", "Foo", "foo-", "-foo", "f.o_o-"]
ODD = ["a b", "5.15.0-generic", "#1 SMP", "a'b", 'a"b', "(a)", "and", "or in", "a;b", "x)", "=", ">=1", "1.0 ;", "==1.0",
       "not", "os_name", "'", '"', " ", "1.0)", "é", "A", "B", "Z", "~", "1.0,2.0", "*", "[x]", "\t", "a\tb",
       "\xa03.8", "3.8\u2003", "\x0b1.0", "1.0\x1f"]      # Unicode / control whitespace around a version: Specifier strips it, Version accepts it
P508 = ("abcxyzABZ019 \t().{}-_*#:;,/?[]!~`@$%^&=+|<>" + "'" + '"')


def rand_lit(rng):
    k = rng.random()
    if k < 0.35: return rng.choice(VERSIONISH)
    if k < 0.7: return rng.choice(NAMEISH)
    if k < 0.9: return rng.choice(ODD)
    s = "".join(rng.choice(P508) for _ in range(rng.choice([0, 1, 1, 2, 3, 4, 6])))
    if "'" in s and '"' in s: s = s.replace("'", "")      # a literal cannot contain both quote characters
    return s


def rand_side(rng, p_var):
    if rng.random() < p_var:
        return ("var", "extra" if rng.random() < 0.2 else rng.choice(VARS))
    return ("lit", rand_lit(rng))


def rand_atom(rng):
    k = rng.random()
    if k < 0.62: l, r = rand_side(rng, 1.0), rand_side(rng, 0.0)
    elif k < 0.84: l, r = rand_side(rng, 0.0), rand_side(rng, 1.0)
    elif k < 0.92: l, r = rand_side(rng, 0.0), rand_side(rng, 0.0)
    else: l, r = rand_side(rng, 1.0), rand_side(rng, 1.0)
    return ("atom", l, rng.choice(OPS_W), r)


def rand_expr(rng, depth):
    n_or = rng.choice([1, 1, 1, 2, 2, 3])
    conjs = []
    for _ in range(n_or):
        n_and = rng.choice([1, 1, 2, 2, 3])
        prims = []
        for _ in range(n_and):
            if depth > 0 and rng.random() < 0.3: prims.append(("paren", rand_expr(rng, depth - 1)))
            else: prims.append(rand_atom(rng))
        conjs.append(("and", prims))
    return ("or", conjs)


def atoms_of(f):
    if f[0] == "atom": return [f]
    if f[0] == "paren": return atoms_of(f[1])
    return [a for g in f[1] for a in atoms_of(g)]


def is_word(c):
    return c.isalnum() and c.isascii() or c == "_"


class Layout:
    """canonical=True: single spaces, double quotes where possible, canonical names, no redundant parentheses (what str() prints
    for a formula without single-element groups)."""
    def __init__(self, rng, canonical=False, extra_spelling=False):
        self.rng, self.canonical, self.extra_spelling = rng, canonical, extra_spelling

    def gap(self, need):
        if self.canonical: return " "
        g = self.rng.choice(["", "", " ", " ", "  ", "\t", " \t "])
        return g if (g or not need) else self.rng.choice([" ", "\t", "  "])


def respell_name(rng, v):
    """another spelling of a name with the same PEP 503 normal form"""
    out = []
    for c in v:
        if c in "-_.": out.append(rng.choice(["-", "_", ".", "--", "_.", "-_-"]))
        elif c.isascii() and c.isalpha(): out.append(c.upper() if rng.random() < 0.4 else c.lower())
        else: out.append(c)
    return "".join(out)


def tokens(ly, f, toks):
    """token texts of f; '(' ')' and quoted literals are single tokens; 'not in' two tokens"""
    rng = ly.rng
    if f[0] == "atom":
        _, l, op, r = f
        wrap = (not ly.canonical) and rng.random() < 0.08
        if wrap: toks.append("(")
        extra_cmp = ("var", "extra") in (l, r)
        for i, x in enumerate((l, None, r)):
            if x is None:
                toks.extend(op.split(" "))
            elif x[0] == "var":
                toks.append(x[1] if ly.canonical else rng.choice([x[1]] + ALT.get(x[1], [])))
            else:
                v = x[1]
                if ly.extra_spelling and extra_cmp: v = respell_name(rng, v)
                qs = [q for q in '"\'' if q not in v]
                q = qs[0] if ly.canonical else rng.choice(qs)
                toks.append(q + v + q)
        if wrap: toks.append(")")
    elif f[0] == "paren":
        k = 1 if ly.canonical or rng.random() < 0.85 else 2
        toks.extend(["("] * k); tokens(ly, f[1], toks); toks.extend([")"] * k)
    else:
        for i, g in enumerate(f[1]):
            if i: toks.append(f[0])
            tokens(ly, g, toks)
    return toks


def render(rng, f, canonical=False, extra_spelling=False, outer=0):
    ly = Layout(rng, canonical, extra_spelling)
    toks = ["("] * outer + tokens(ly, f, []) + [")"] * outer
    out = [] if canonical else [ly.gap(False)]
    for i, t in enumerate(toks):
        if i:
            p = toks[i - 1]
            need = (is_word(p[-1]) and is_word(t[0])) or (p == "not" and t == "in")
            if canonical and (p == "(" or t == ")"): g = ""
            else: g = ly.gap(need)
            out.append(g)
        out.append(t)
    if not canonical: out.append(ly.gap(False))
    return "".join(out)


def rand_env(rng, total=True):
    env = {}
    for k in VARS:
        if not total and rng.random() < 0.5: continue
        env[k] = rand_lit(rng)
    if "python_full_version" in env and rng.random() < 0.25:
        env["python_full_version"] = rng.choice(["3.12.0+", "3.9+", "+", "3.13.0a1+", "x+", "3.8.1+"])
    if "extra" in env and rng.random() < 0.12: env["extra"] = None
    if not total and rng.random() < 0.2: env.pop("extra", None)
    return env


def env_for(rng, f, total=True):
    """an environment biased towards the literals the formula compares with, so that comparisons are often true"""
    env = rand_env(rng, total)
    for a in atoms_of(f):
        _, l, op, r = a
        for x, y in ((l, r), (r, l)):
            if x[0] == "var" and y[0] == "lit" and x[1] in env and rng.random() < 0.45 and env[x[1]] is not None:
                v = y[1]
                if x[1] == "extra" and rng.random() < 0.5: v = respell_name(rng, v)
                if x[1] == "python_full_version" and rng.random() < 0.2: v = v + "+"
                env[x[1]] = v
    return env


def env_args(env, defaults=None):
    """entries of the k.eval protocol"""
    out = []
    for k, v in (defaults or {}).items(): out.append("d" + k + "=" + v)
    for k, v in env.items(): out.append("o" + k + ("!" if v is None else "=" + v))
    return out


MUT_CH = list("()\"' =<>!~andorint_x.\t") + ["\n", "\\", "\x00", "\r", "é", ";"]


# ---------------------------------------------------------------- additions (improvement round: audit C07 / C09)
# non-ASCII characters that Python's Unicode-aware \w / \b treat as word characters (the model's is_word is ASCII-only): upper-case
# e-acute, long s (lower() -> 's'), Arabic-Indic digit one, Kelvin sign (lower() -> 'k'), fullwidth digit one, Greek capital sigma
UNI_WORD = ["É", "ſ", "١", "K", "１", "Σ", "é"]
KEYWORDS = ["and", "or", "in", "not"] + sorted(set(VARS) | {a for v in ALT.values() for a in v}, key=len, reverse=True)


def unicode_adjacent(rng, s):
    """s with one non-ASCII word character inserted directly before or after an occurrence of a keyword / variable name
    (or, rarely, anywhere): with a Unicode-aware \\b the keyword no longer stands alone"""
    spots = []
    for kw in KEYWORDS:
        i = s.find(kw)
        while i >= 0:
            spots += [i, i + len(kw)]
            i = s.find(kw, i + 1)
    if not spots or rng.random() < 0.1: spots = list(range(len(s) + 1))
    i = rng.choice(spots)
    # inside a quoted literal (which may be compared with extra) only characters whose str.lower() the name model covers:
    # canonicalize_name on other non-ASCII upper-case letters is a declared assumption of the checks
    q = None
    for c in s[:i]:
        if q: q = None if c == q else q
        elif c in "'\"": q = c
    pool = [u for u in UNI_WORD if u.lower() == u or u == "\u212a"] if q else UNI_WORD
    return s[:i] + rng.choice(pool) + s[i:]


def deep_texts(rng, n):
    """well-formed markers of nesting depth n (n pairs of parentheses on one path), with the value they must have under
    os_name = 'b': redundant parentheses, right-nested 'and (' / 'or (' chains, left-nested chains, and a zig-zag"""
    a_t, a_f = 'os_name == "b"', 'os_name == "a"'
    out = []
    core = rng.choice([a_t, a_f])
    out.append(("(" * n + core + ")" * n, core == a_t))
    # right-nested: A op (A op (... core))
    op = rng.choice(["and", "or"])
    lead = rng.choice([a_t, a_f])
    val = core == a_t
    for _ in range(n): val = (lead == a_t and val) if op == "and" else (lead == a_t or val)
    out.append(((lead + " " + op + " (") * n + core + ")" * n, val))
    # left-nested: (((core) op A) op A) ...
    val = core == a_t
    for _ in range(n): val = (val and lead == a_t) if op == "and" else (val or lead == a_t)
    out.append(("(" * n + core + (") " + op + " " + lead) * n, val))
    # alternating and/or with doubled parentheses every other level
    s, val = core, core == a_t
    for k in range(n // 2):
        if k % 2: s, val = "((" + s + " or " + a_f + "))", val or False
        else: s, val = "((" + a_t + " and " + s + "))", True and val
    out.append((s, val))
    return out


def extra_at_depth(rng, depth):
    """a formula whose innermost group (depth parentheses down) holds comparisons with extra on either side"""
    nm = rng.choice([n for n in NAMEISH if n]) if rng.random() < 0.7 else rand_lit(rng)
    if "'" in nm and '"' in nm: nm = "foo"
    inner = [("atom", ("var", "extra"), rng.choice(["==", "!=", "in", "not in", ">=", "==="]), ("lit", nm)) if rng.random() < 0.5
             else ("atom", ("lit", nm), rng.choice(["==", "!=", "in", "not in"]), ("var", "extra"))]
    if rng.random() < 0.5: inner.append(rand_atom(rng))
    f = ("or", [("and", inner)]) if rng.random() < 0.5 else ("or", [("and", [x]) for x in inner])
    for _ in range(depth):
        prims = [("paren", f)]
        if rng.random() < 0.6: prims.insert(rng.randrange(2), rand_atom(rng))
        f = ("or", [("and", prims)]) if rng.random() < 0.6 else ("or", [("and", [p]) for p in prims])
    return f


# requirement texts up to (not including) the ';' of the marker: name, extras, version clauses (bare / parenthesised), URL (which
# needs white space before the ';'), with the white space variants the grammar allows
REQ_PREFIXES = ["pkg", "pkg ", "pkg[a]", "pkg [a, b_c] ", "pkg>=1.0", "pkg >=1.0,<2 ", "pkg (>=1.0)", "pkg ( ==1.0.* , !=1.0.3 ) ", "pkg==1.0+local",
                "pkg~=2.1", "pkg===foo ", "Foo.Bar-baz [x]>=1a1", "pkg @ https://example.com/p.whl ", "pkg[a] @ file:///tmp/x#sha=1;2 \t",
                " pkg\t", "p"]


def long_expr(rng, n):
    """a flat formula with n atoms (or-lists / and-lists far longer than rand_expr's 3), a few of them parenthesised sub-formulas"""
    conjs, cur = [], []
    for _ in range(n):
        cur.append(("paren", rand_expr(rng, 0)) if rng.random() < 0.1 else rand_atom(rng))
        if rng.random() < 0.35: conjs.append(("and", cur)); cur = []
    if cur: conjs.append(("and", cur))
    return ("or", conjs)
