#!/bin/bash
# restore_evidence.sh <logfile> <checks...>: re-run the given checks with the default seed (in parallel) so evidence/Cxx.json is the default run again
cd /verif
LOG="$1"; shift
: > "$LOG"
one() { out=$(./check $1 2>&1); rc=$?; echo "$(echo "$out" | grep -v '^KNOWN-FINDING' | tail -1) | exit=$rc violations=$(echo "$out" | grep -c '^VIOLATION')" >> "$LOG"; }
for p in "$@"; do one $p & done
wait
sort -o "$LOG" "$LOG"
