"""Generators of the platform domain (C16): an ELF encoder for the four class/endianness layouts, policy-module descriptions,
libc version strings.  Every random choice comes from the rng passed in.  Bytes are carried as str of code points < 256."""
import struct

E_FMT = {(1, 1): "<HHIIIIIHHH", (1, 2): ">HHIIIIIHHH", (2, 1): "<HHIQQQIHHH", (2, 2): ">HHIQQQIHHH"}
P_FMT = {(1, 1): "<IIIIIIII", (1, 2): ">IIIIIIII", (2, 1): "<IIQQQQQQ", (2, 2): ">IIQQQQQQ"}
MACHINES = [3, 22, 40, 62, 183, 0, 8, 20, 21, 243, 258, 65535]
ARM_FLAGS = [0x05000400, 0x05000200, 0x05000000, 0x04000400, 0x05000402, 0x85000400, 0x05400400, 0, 0xFFFFFFFF, 0x400, 0x05000600]
INTERPS = [b"/lib/ld-musl-x86_64.so.1\0", b"/lib64/ld-linux-x86-64.so.2\0", b"/lib/ld-musl-armhf.so.1", b"\0\0/lib/ld-musl-aarch64.so.1\0\0\0",
           b"/lib/ld-linux-armhf.so.3\0", b"", b"\0", b"musl", b"/lib/ld-mus\0l.so", b"/l\xffib/ld-musl-\xe9.so.1\0", b"/lib/MUSL.so\0", b"x\0musl\0y\0",
           b"/lib/ld-musl-i386.so.1\0", b"/opt/\xc3\xa9/ld-musl-s390x.so.1\0"]


def b2s(b):
    return b.decode("latin-1")


def put(buf, pos, data):
    if len(buf) < pos: buf.extend(b"\0" * (pos - len(buf)))
    buf[pos:pos + len(data)] = data


READ_LIMIT = 2 ** 48          # nominal: every generated huge SIZE is >= 2**50 (no machine serves such a read buffer), everything else < 2**33


def probe_seek_limit(directory=None):
    """the first offset a buffered reader refuses to seek to / read at on the file system that holds the temporary files (ext4: 2**44 - 4095, tmpfs: 2**63 - 4096):
    binary search on a scratch file; monotone by the kernel's `offset > s_maxbytes` test.  The implementation side writes its images
    to tempfile.mkdtemp(), i.e. the same tempfile.gettempdir()."""
    import os, tempfile
    fd, name = tempfile.mkstemp(prefix="verif_seek_", dir=directory)
    os.write(fd, b"x" * 100); os.close(fd)
    try:
        with open(name, "rb") as f:          # the API the code uses: a buffered reader, seek then read
            def ok(pos):
                try: f.seek(pos); f.read(64); return True
                except (OSError, ValueError, OverflowError): return False
            lo, hi = 0, 2 ** 63          # ok(lo); 2**63 does not fit off_t
            while hi - lo > 1:
                mid = (lo + hi) // 2
                if ok(mid): lo = mid
                else: hi = mid
            return hi
    finally:
        os.unlink(name)


SEEK_LIMIT = probe_seek_limit()
DISK_LIMIT = SEEK_LIMIT        # (name kept for callers)


def rand_elf(rng, clean=None, file_safe=False, want=None, disk=False):
    """Returns (bytes, expect) where expect = (cap, enc, machine, flags, interp or None) when the image was laid out cleanly
    (no truncation/overlap/damage), else None.  file_safe: keep every offset/size small (for images read through a real file).
    disk: the image will be read through a real file although it is not file_safe: huge values are taken from {2**50, 2**62, 2**63-1, 2**63, max}
    and around the probed seek limit of the host's temporary directory (SEEK_LIMIT - 1, SEEK_LIMIT, SEEK_LIMIT + 1); sizes never between 2**33 and 2**50."""
    if clean is None: clean = rng.random() < 0.5
    cap, enc = rng.choice([1, 2]), rng.choice([1, 2])
    if want in ("armhf", "i686"):
        cap, enc = 1, 1
        r = rng.random()
        if r < 0.12: enc = 2            # right machine, wrong endianness
        elif r < 0.2: cap = 2           # right machine, wrong class
    wide = 0xFFFFFFFFFFFFFFFF if cap == 2 else 0xFFFFFFFF
    machine = rng.choice(MACHINES) if rng.random() < 0.8 else rng.randrange(65536)
    flags = rng.choice(ARM_FLAGS) if rng.random() < 0.7 else rng.randrange(2 ** 32)
    if want == "armhf": machine = 40 if rng.random() < 0.85 else rng.choice(MACHINES); flags = rng.choice(ARM_FLAGS)
    if want == "i686": machine = 3 if rng.random() < 0.85 else rng.choice(MACHINES)
    ehsize = 16 + struct.calcsize(E_FMT[(cap, enc)])
    psize = struct.calcsize(P_FMT[(cap, enc)])
    nph = rng.choice([0, 1, 2, 3, 4, 6, 6, 9, 17] if not file_safe else [0, 1, 2, 3, 4, 6])
    if want == "musl" and rng.random() < 0.9: nph = max(nph, 1)
    entsize = psize if clean or rng.random() < 0.6 else (psize + rng.choice([0, 8, 44])) if (file_safe or disk) else rng.choice([0, 1, psize - 1, psize + 8, 7, 64, 300, 65535 if nph <= 1 else 100])
    phoff = ehsize if rng.random() < 0.7 else ehsize + rng.randrange(0, 40)
    buf = bytearray()
    types = [rng.choice([0, 1, 1, 2, 3, 3, 4, 6, 0x6474E551, 7, 0x70000001]) for _ in range(nph)]
    if (clean and rng.random() < 0.5 and nph) or (want == "musl" and nph): types[rng.randrange(nph)] = 3
    blob_at = phoff + max(entsize, psize) * nph + rng.randrange(0, 16)
    phdrs, first_interp = [], None
    for t in types:
        s = rng.choice(INTERPS)
        if want == "musl" and rng.random() < 0.7: s = rng.choice([x for x in INTERPS if b"musl" in x])
        off, size = blob_at, len(s)
        if not clean:
            r = rng.random()
            if r < 0.12: size = rng.choice([0, max(len(s) - 3, 0), len(s) + 5, 4096])
            elif r < 0.2: off = rng.choice([0, 3, blob_at + 10 ** 6, 2 ** 31])
            elif r < (0.45 if t == 3 else 0.3) and not file_safe:
                if rng.random() < 0.5: off = rng.choice([2 ** 63 - 1, 2 ** 63, wide, 2 ** 62] + ([2 ** 50, SEEK_LIMIT - 1, SEEK_LIMIT, SEEK_LIMIT + 1, SEEK_LIMIT // 2] if disk else [])) & wide
                else: size = rng.choice([2 ** 63 - 1, 2 ** 63, wide, 2 ** 50 if disk else 2 ** 40] + ([2 ** 62] if disk else [])) & wide
        fields = [t, rng.randrange(8)] + [rng.randrange(2 ** 16) for _ in range(6)]
        io, isz = (1, 4) if cap == 1 else (2, 5)
        if cap == 2: fields[1] = rng.randrange(8)
        fields[io], fields[isz] = off, size
        if t == 3 or rng.random() < 0.3:
            put(buf, blob_at, s)
            if t == 3 and first_interp is None: first_interp = s.strip(b"\0")
            blob_at += len(s) + rng.randrange(0, 4)
        phdrs.append(fields)
    e_phoff, e_phnum = phoff, nph
    if not clean:
        r = rng.random()
        if r < 0.08 and not file_safe: e_phoff = rng.choice([2 ** 63 - 1, 2 ** 63, 2 ** 64 - 1, 2 ** 63 - psize, 2 ** 62] + ([2 ** 50, SEEK_LIMIT - psize, SEEK_LIMIT, SEEK_LIMIT - 2 * psize - 1] if disk else [])) & wide
        elif r < 0.14: e_phoff = rng.choice([0, 5, 10 ** 6, 2 ** 31 - 1] if not (file_safe or disk) else [10 ** 6, 2 ** 31 - 1])
        elif r < 0.2: e_phnum = rng.choice([nph + 1, nph + 3, max(nph - 1, 0), 40])
        elif r < 0.21 and not file_safe and entsize <= 64: e_phnum = 65535      # long scans over a short file
        elif r < 0.25 and not file_safe and cap == 2: e_phoff = 2 ** 63 - entsize * max(nph - 1, 0) - rng.choice([0, 1]);
    hdr = [rng.choice([2, 3]), machine, 1, rng.randrange(wide + 1), e_phoff, rng.randrange(wide + 1), flags, ehsize, entsize, e_phnum]
    pad = bytes(rng.randrange(256) if rng.random() < 0.2 else 0 for _ in range(10))
    head = b"\x7fELF" + bytes([cap, enc]) + pad + struct.pack(E_FMT[(cap, enc)], *hdr)
    for k, f in enumerate(phdrs):
        put(buf, phoff + entsize * k, struct.pack(P_FMT[(cap, enc)], *f))
    put(buf, 0, head)      # the header wins over whatever a small stride put there
    data = bytes(buf)
    expect = (cap, enc, machine, flags, first_interp) if clean else None
    if not clean:
        r = rng.random()
        if r < 0.25: data = data[:rng.randrange(len(data) + 1)]
        elif r < 0.32 and not file_safe:
            d = bytearray(data); i = rng.randrange(min(len(d), 20))
            if disk and i in (4, 5): i = 6          # a flipped class/endianness byte re-reads the fields as arbitrary 64-bit offsets: between the limits
            d[i] = rng.randrange(256); data = bytes(d)
        elif r < 0.36: data = data[:rng.choice([0, 3, 4, 5, 6, 15, 16, 17, ehsize - 1, ehsize])]
        elif r < 0.4 and not file_safe:
            d = bytearray(data); d[rng.choice([4, 5])] = rng.choice([0, 3, 255]); data = bytes(d)
    return data, expect


def rand_policy(rng, archs):
    """'-' | 'M' a1 a2010 a2014 [':' default (';' M.m.arch=c)*]"""
    r = rng.random()
    if r < 0.3: return "-"
    attrs = "".join(rng.choice("---TFOZN") for _ in range(3))
    if r < 0.55: return "M" + attrs
    d = rng.choice("TTTNNNOFZ")
    rules = []
    for _ in range(rng.choice([0, 1, 2, 5, 8])):
        M = rng.choice([2, 2, 2, 3, 1]); m = rng.choice([5, 12, 17, 4, 16, 18, 28, 34, 50, 0, rng.randrange(0, 52)])
        rules.append(";%d.%d.%s=%s" % (M, m, rng.choice(["*"] + list(archs) + ["x86_64"]), rng.choice("TFNOZF")))
    return "M" + attrs + ":" + d + "".join(rules)


GOOD_ARCH_LISTS = [["x86_64"], ["aarch64"], ["ppc64le"], ["s390x"], ["riscv64"], ["ppc64"], ["loongarch64"], ["armv8l", "armv7l"], ["i686"], ["armv7l"]]
ARCH_LISTS = [["x86_64"], ["aarch64"], ["ppc64le"], ["s390x"], ["riscv64"], ["ppc64"], ["loongarch64"], ["mips"], ["armv8l", "armv7l"], ["i686"], ["armv7l"],
              ["sparc64"], [], ["x86_64", "i686"], ["s390x", "x86_64"], ["aarch64", "aarch64"], ["armv6l"], ["x86_64", "foo"], ["X86_64"], ["i686", "armv7l"]]
JUNK = ["", "", "", "-2014.11", ".9", ".9.1", "+git", "x", "-r1", ".", "..", " ", "٣"]


def rand_glibc_string(rng):
    """the text after 'glibc ' in CS_GNU_LIBC_VERSION (or what gnu_get_libc_version returns)"""
    M = rng.choice([2, 2, 2, 2, 3, 3, 1, 0, 4, 2, 10])
    m = rng.choice([0, 4, 5, 6, 11, 12, 13, 16, 17, 18, 27, 28, 31, 35, 39, 50, 51, 60, rng.randrange(0, 70), rng.randrange(0, 130)])
    r = rng.random()
    if r < 0.04:          # beyond / at int()'s limit of 4300 digit characters (zero padded, so that the readable ones stay small numbers); other scripts
        return rng.choice(["9" * 5000 + ".1", "2." + "9" * 4301, "0" * 4299 + "2.17", "0" * 4300 + "2.17", "2." + "0" * 4298 + "17", "2." + "0" * 4299 + "17",
                           "\u0662.\u0661\u0667", "2.\u0661\u0667", "\u0662.17", "2.17\u0663", "\uff12.\uff11\uff17"])
    if r < 0.8: return "%d.%d%s" % (M, m, rng.choice(JUNK))
    if r < 0.86: return "%s%d.%s%d" % (rng.choice(["0", "00"]), M, rng.choice(["0", "00"]), m)
    return rng.choice(["", "2", "2.", ".17", "2,17", "a2.17", "2.x", "v2.17", "2 .17", "-2.17", "2.-17", "2..17", "+2.17"])


def rand_musl_output(rng):
    M = rng.choice([1, 1, 1, 0, 2]); m = rng.choice([0, 1, 2, 2, 3, 5, 9, 12, 24])
    ver = "Version %d.%d%s" % (M, m, rng.choice(["", ".2", ".24", "-git-1", " x", "."]))
    if rng.random() < 0.08:          # Unicode digits (backslash-d and int() take them), mixed scripts, numbers beyond int()'s 4300-digit limit (zero padded)
        ver = "Version " + rng.choice(["\u0661.\u0662", "1.\u0662", "\u0661.2.3", "\uff11.\uff12", "1\u0660.3", "\u0967.\u0968", "9" * 5000 + ".1", "1." + "9" * 4301,
                                       "0" * 4299 + "1.2", "0" * 4300 + "1.2", "1." + "0" * 4299 + "2", "1." + "0" * 4300 + "2", "\u0660" * 4300 + "1.2", "\u0660" * 4299 + "1.2"])
    first = rng.choice(["musl libc (x86_64)", "musl libc (aarch64)", "musl", "musl-libc", "  musl libc (armhf)  ", "mus", "glibc", "MUSL libc", "\tmusl libc"])
    nl = lambda: rng.choice(["\n", "\n", "\n", "\r\n", "\r", "\n\n", "\n \n", "\x0b", "\x0c", "\x1c", "\x85", " ", "\n\t\n"])
    r = rng.random()
    if r < 0.7: return first + nl() + ver + nl() + "Dynamic Program Loader" + nl() + "Usage: ld.so [options] [--] pathname" + rng.choice(["", "\n"])
    if r < 0.78: return rng.choice(["", "\n", " \n \n"]) + first + nl() + rng.choice(["  ", ""]) + ver
    if r < 0.84: return first + nl() + "Dynamic Program Loader" + nl() + ver
    if r < 0.9: return first + nl() + rng.choice(["version 1.2", "Version1.2", "Version  1.2", "Version x.2", "Version 1", "Version 1.", "Version .2", "Version 1,2", "xVersion 1.2"])
    return rng.choice(["", first, first + nl(), ver + nl() + first, "\n\n", first + " " + ver])
