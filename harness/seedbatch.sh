#!/bin/bash
# seedbatch.sh <prefix> <Cxx> : verify /tmp/seed_<prefix>cxx_out (and /2) against the property's check and its neighbours; print one summary line each
P=$1; C=$2; c=$(echo $C | tr 'A-Z' 'a-z')
declare -A REL=( [C01]="C01 C02 C10" [C02]="C02 C01" [C03]="C03 C04" [C04]="C04 C03" [C05]="C05 C10 C20" [C06]="C06 C20" [C07]="C07 C20" [C08]="C08 C10" [C09]="C09 C07"
  [C10]="C10" [C11]="C11" [C12]="C12 C11" [C13]="C13 C20" [C14]="C14" [C15]="C15" [C16]="C16 C11" [C17]="C17 C20" [C18]="C18" [C19]="C19 C20" [C20]="C20" )
for sub in "" "/2"; do
  D=/tmp/seed_${P}${c}_out$sub
  [ -f $D/patch.diff ] || continue
  ID=${P}-${c}-$( [ -z "$sub" ] && echo a || echo b )
  printf "%s: " $ID
  timeout 2400 /verif/harness/seedtest.sh $D $ID ${REL[$C]} 2>&1 | grep "^== check\|^violations\|passed\|failed\|^exit\|PATCH" | sed 's/== check \(C[0-9]*\) against the changed tree/\1/' | tr '\n' ' '; echo
done
