"""Runs inside the implementation interpreter (/venv/bin/python, PYTHONPATH=/repo/src).
stdin: one JSON [cmd, [args]] per line; stdout: one JSON observation per line (a string)."""
import importlib, json, os, sys
sys.path.insert(0, os.path.join(os.path.dirname(os.path.abspath(__file__)), "impl"))
import packaging
assert os.path.realpath(packaging.__file__).startswith(os.path.realpath(os.environ["PYTHONPATH"].split(":")[0])), packaging.__file__
mod = importlib.import_module(sys.argv[1])
out = sys.stdout
for line in sys.stdin:
    cmd, args = json.loads(line)
    try:
        obs = mod.observe(cmd, args)
    except RecursionError:
        obs = "!EXC:RecursionError"
    except BaseException as e:     # an escaping exception is itself an observation
        obs = "!EXC:" + type(e).__name__
    out.write(json.dumps(obs) + "\n")
out.flush()
