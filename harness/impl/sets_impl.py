"""Implementation-side observations of the specifier-set domain (C05, C06).

`s.run` interprets the same stack program as coq/Run/RunSets.v on real Specifier / SpecifierSet objects (public API only).
Documented exceptions are mapped to tokens: InvalidSpecifier -> !E (ends the run), ValueError of `&` -> !V (ends the run),
InvalidVersion of contains/filter -> E.  Anything else escapes and is reported by the runner as !EXC:<Class>.
The law.* commands evaluate clauses of C05/C06 directly on the implementation and return "ok" or a description."""
import itertools, random
from packaging.specifiers import Specifier, SpecifierSet, InvalidSpecifier
from packaging.version import Version, InvalidVersion

# T F N, and non-bool values read by truthiness: ints 1 / 0, a non-empty / the empty str
TRI = {"T": True, "F": False, "N": None, "1": 1, "0": 0, "S": "x", "E": ""}
def b(x): return "T" if x else "F"
def tri(x): return "N" if x is None else b(x)


class Stop(Exception):
    pass


def mk_item(kind, text):
    """kind 'v': a Version object built from the text (when the text is not a version the string itself is passed)."""
    if kind == "v":
        try: return Version(text)
        except InvalidVersion: return text
    return "".join(text)        # a str object


def positions(inp, res):
    """res must consist of the very objects of inp, in input order: greedy subsequence match by identity."""
    out, j = [], 0
    for r in res:
        while j < len(inp) and inp[j] is not r: j += 1
        if j == len(inp): return None
        out.append(j); j += 1
    return out


def do_contains(top, a, inst, k, t):
    it = mk_item(k, t)
    try:
        if isinstance(top, SpecifierSet):
            if inst == "N" and a == "N" and len(t) % 2: r = top.contains(it)
            elif inst == "N": r = top.contains(it, prereleases=TRI[a])
            else: r = top.contains(it, prereleases=TRI[a], installed=TRI[inst])
        else:
            r = top.contains(it, prereleases=TRI[a]) if not (a == "N" and len(t) % 2) else top.contains(it)
        return b(r) if r is True or r is False else "!nonbool"
    except InvalidVersion: return "E"


def do_in(top, k, t):
    try:
        r = mk_item(k, t) in top
        return b(r) if r is True or r is False else "!nonbool"
    except InvalidVersion: return "E"


def do_filter(top, a, n, prs):
    items = []
    for k in range(int(n)):
        # kind 'd': the SAME object as the previous item (an input list may hold one object twice; both occurrences are positions of their own)
        if prs[2 * k] == "d" and items and prs[2 * k + 1] == prs[2 * k - 1]: items.append(items[-1])
        else: items.append(mk_item(prs[2 * k], prs[2 * k + 1]))
    # the iterable kind is a function of the case text: a list, a one-shot iterator, a generator or a tuple must all do
    sel = (sum(len(x) for x in prs) + int(n)) % 4
    feed = [items, iter(items), (x for x in items), tuple(items)][sel]
    try:
        res = list(top.filter(feed, prereleases=TRI[a])) if not (a == "N" and int(n) % 2) else list(top.filter(feed))
        pos = positions(items, res)
        if pos is None: return "[!not-the-input-objects-in-input-order]"
        return "[" + ".".join("%d%s" % (p, prs[2 * p]) for p in pos) + "]"
    except InvalidVersion: return "[E]"


def run_prog(args, hook=None):
    stack, out, i = [], [], 0
    def take(n):
        nonlocal i
        r = args[i:i + n]; i += n
        if len(r) != n: raise KeyError("bad program")
        return r
    try:
        while i < len(args):
            op, = take(1)
            if op == "S":
                o, t = take(2)
                try: stack.append(SpecifierSet(t, prereleases=TRI[o]))
                except InvalidSpecifier: out.append("!E"); raise Stop
            elif op == "X":
                o, t = take(2)
                try: stack.append(Specifier(t, prereleases=TRI[o]))
                except InvalidSpecifier: out.append("!E"); raise Stop
            elif op == "L":
                o, n = take(2); prs = take(2 * int(n))
                try: ms = [Specifier(prs[2 * k + 1], prereleases=TRI[prs[2 * k]]) for k in range(int(n))]
                except InvalidSpecifier: out.append("!E"); raise Stop
                stack.append(SpecifierSet(ms, prereleases=TRI[o]))
            elif op == "&":
                y = stack.pop(); x = stack.pop()
                try: stack.append(x & y)
                except ValueError: out.append("!V"); raise Stop
            elif op == "&s":
                t, = take(1); x = stack.pop()
                try: stack.append(x & t)
                except InvalidSpecifier: out.append("!E"); raise Stop
                except ValueError: out.append("!V"); raise Stop
            elif op == "P":
                o, = take(1); stack[-1].prereleases = TRI[o]
            elif op == "c":
                a, inst, k, t = take(4); out.append(do_contains(stack[-1], a, inst, k, t))
            elif op == "in":
                k, t = take(2); out.append(do_in(stack[-1], k, t))
            elif op == "f":
                a, n = take(2); prs = take(2 * int(n)); out.append(do_filter(stack[-1], a, n, prs))
            elif op == "eqs":
                k, t = take(2); top = stack[-1]
                try:
                    other = Specifier(t) if k == "X" else len(t) if k == "n" else t
                    r = top == other
                    if r is not True and r is not False: out.append("!nonbool")
                    elif r != (not top != other): out.append("!eq-ne-disagree")
                    else: out.append(b(r))
                except InvalidSpecifier: out.append("!E"); raise Stop
            elif op == "str": out.append(str(stack[-1]))
            elif op == "len": out.append(str(len(stack[-1])))
            elif op == "pre": out.append(tri(stack[-1].prereleases))
            elif op == "eq":
                r = stack[-2] == stack[-1]
                if r and hash(stack[-2]) != hash(stack[-1]): out.append("!equal-but-hash-differs")
                elif r != (not stack[-2] != stack[-1]): out.append("!eq-ne-disagree")
                else: out.append(b(r))
            else:
                raise KeyError(op)
    except Stop:
        pass
    if hook is not None: hook(stack)
    return ";".join(out)


def run_world(args):
    """s.world: Specifier objects (cells) and sets numbered in order of creation; a set built with L holds the very cell objects, so an
    assignment through the harness's own reference to a cell (M) must be seen through every set holding it, also through a & b."""
    cells, sets, out, i = [], [], [], 0
    def take(n):
        nonlocal i
        r = args[i:i + n]; i += n
        if len(r) != n: raise KeyError("bad program")
        return r
    try:
        while i < len(args):
            op, = take(1)
            if op == "X":
                o, t = take(2)
                try: cells.append(Specifier(t, prereleases=TRI[o]))
                except InvalidSpecifier: out.append("!E"); raise Stop
            elif op == "L":
                o, n = take(2); addrs = [int(x) for x in take(int(n))]
                sets.append(SpecifierSet([cells[a] for a in addrs], prereleases=TRI[o]))
            elif op == "&":
                x, y = take(2)
                try: sets.append(sets[int(x)] & sets[int(y)])
                except ValueError: out.append("!V"); raise Stop
            elif op == "P":
                x, o = take(2); sets[int(x)].prereleases = TRI[o]
            elif op == "M":
                a, o = take(2); cells[int(a)].prereleases = TRI[o]
            elif op == "Mi":
                # the alias obtained by iterating the set: it must be the very object that was put in
                h, a, o = take(3)
                alias = next((s for s in sets[int(h)] if s is cells[int(a)]), None)
                if alias is None: out.append("!noalias")
                else: alias.prereleases = TRI[o]
            elif op == "c":
                x, a, inst, k, t = take(5); out.append(do_contains(sets[int(x)], a, inst, k, t))
            elif op == "in":
                x, k, t = take(3); out.append(do_in(sets[int(x)], k, t))
            elif op == "f":
                x, a, n = take(3); prs = take(2 * int(n)); out.append(do_filter(sets[int(x)], a, n, prs))
            elif op == "pre":
                x, = take(1); out.append(tri(sets[int(x)].prereleases))
            elif op == "str":
                x, = take(1); out.append(str(sets[int(x)]))
            elif op == "xc":
                a, arg, k, t = take(4); out.append(do_contains(cells[int(a)], arg, "N", k, t))
            elif op == "xf":
                a, arg, n = take(3); prs = take(2 * int(n)); out.append(do_filter(cells[int(a)], arg, n, prs))
            elif op == "xpre":
                a, = take(1); out.append(tri(cells[int(a)].prereleases))
            else:
                raise KeyError(op)
    except Stop:
        pass
    return ";".join(out)


# ------------------------------------------------------------------------------------------------ laws

def AND(x, y):
    try: return x & y
    except ValueError: return None


def valid_items(cands):
    out = []
    for c in cands:
        try: Version(c); out.append(c)
        except InvalidVersion: pass
    return out


def law_c05(args):
    """args: seed, oa, ob, oc, na, nb, nc, clauses of A, of B, of C, then candidates"""
    seed, oa, ob, oc, na, nb, nc = args[:7]; na, nb, nc = int(na), int(nb), int(nc)
    rest = args[7:]
    A, B, C = rest[:na], rest[na:na + nb], rest[na + nb:na + nb + nc]
    cands = valid_items(rest[na + nb + nc:])
    r = random.Random(int(seed))
    if any("," in cl for cl in A + B + C): return "ok"      # a clause containing a comma cannot be written in a set text (see law.s.reparse)
    try:
        members = {cl: Specifier(cl) for cl in A + B + C}
    except InvalidSpecifier:
        return "ok"
    def mk(cl, o, shuffle=True):
        cl = list(cl)
        if shuffle: r.shuffle(cl)
        s = r.choice(["", " ", ", ", "\t"]) + r.choice([",", " , ", ", ", " ,", ",,", ",\n"]).join(cl) + r.choice(["", " ", ",", ",, "])
        return SpecifierSet(s, prereleases=TRI[o])
    a, b_, c = mk(A, oa), mk(B, ob), mk(C, oc)
    # conjunction; order, spacing, duplication
    a2 = mk(A + A[:2] + A[-1:], oa)
    if a != a2 or hash(a) != hash(a2) or len(a) != len(a2): return "duplicated/reordered clauses give a different set: %r" % (A,)
    distinct = len({members[x] for x in A}) == len(set(A))
    if distinct and str(a) != str(a2): return "str differs for reordered clauses: %r" % (A,)
    if len(a) != len({members[x] for x in A}): return "len is not the number of distinct clauses"
    if sorted(map(str, a)) != str(a).split(",") and not any(x.startswith("===") and "," in x for x in map(str, a)) and len(a): return "iteration and str disagree"
    for x in cands:
        m = all(members[cl].contains(x, prereleases=True) for cl in A)
        if a.contains(x, prereleases=True) is not m: return "contains(prereleases=True) is not the conjunction: %r %r" % (A, x)
        if a2.contains(x, prereleases=True) is not m: return "duplication changes the answer: %r %r" % (A, x)
        if SpecifierSet("").contains(x, prereleases=True) is not True: return "empty set does not match %r" % x
    # intersection
    aa = AND(a, a)      # theorem C05_and_idempotent_text: a & a never raises, keeps the override, is == a and matches what a matches
    if aa is None or aa != a or hash(aa) != hash(a) or aa.prereleases is not a.prereleases or str(aa) != str(a): return "& is not idempotent: %r" % (A,)
    for x in cands:
        for setting in (True, False):
            if aa.contains(x, prereleases=setting) is not a.contains(x, prereleases=setting): return "a & a answers differently from a: %r %r" % (A, x)
    ab, ba = AND(a, b_), AND(b_, a)
    contradictory = {TRI[oa], TRI[ob]} == {True, False}
    if (ab is None) != contradictory or (ba is None) != contradictory: return "error cell of & wrong for overrides %s %s" % (oa, ob)
    if ab is not None:
        if ab != ba or hash(ab) != hash(ba) or ab.prereleases is not ba.prereleases: return "& not commutative: %r %r" % (A, B)
        exp = TRI[oa] if TRI[oa] is not None else TRI[ob]
        if exp is not None and ab.prereleases is not exp: return "override not carried by &"
        if exp is None and ab.prereleases is not (None if not len(ab) else any(s.prereleases for s in ab)): return "a & b of sets without override has an override"
        cat = SpecifierSet(",".join(A + B))
        if ab != cat or hash(ab) != hash(cat): return "a & b is not the set parsed from the concatenated clauses: %r %r" % (A, B)
        if not any(x.startswith("===") and "," in x for x in map(str, list(a) + list(b_))):
            cat2 = SpecifierSet(str(a) + "," + str(b_))
            if ab != cat2: return "a & b is not SpecifierSet(str(a)+','+str(b))"
        if (a & ",".join(B)) != AND(a, mk(B, "N")): return "a & 'text' differs from a & SpecifierSet('text')"
        for x in cands:
            for p in (True, False, None):
                # with no explicit argument the operands' own defaults differ from the default of the intersection: finals only
                if p is None and Version(x).is_prerelease: continue
                if ab.contains(x, prereleases=p) is not (a.contains(x, prereleases=p) and b_.contains(x, prereleases=p)):
                    return "a & b does not match exactly what both match: %r %r %r prereleases=%r" % (A, B, x, p)
        l = AND(ab, c); bc = AND(b_, c); rr = AND(a, bc) if bc is not None else None
        if (l is None) != (rr is None): return "associativity: one side raises (%s %s %s)" % (oa, ob, oc)
        if l is not None and (l != rr or hash(l) != hash(rr) or l.prereleases is not rr.prereleases or len(l) != len(rr)):
            return "& not associative: %r %r %r" % (A, B, C)
    # str round trip
    s = str(a)
    if s != str(a): return "str not deterministic"
    if not any(x.startswith("===") and "," in x for x in map(str, a)):
        try: back = SpecifierSet(s)
        except InvalidSpecifier: return "str(set) does not parse: %r" % s
        if back != a or hash(back) != hash(a): return "str(set) parses to a different set: %r" % s
        if str(back) != s: return "str not idempotent: %r" % s
        if s != ",".join(sorted(s.split(","))) : return "str is not the sorted comma-joined form: %r" % s
    return "ok"


def law_c06(args):
    """args: kind (X|S|L), ctor override, later override (T|F|N|1|0|keep), text, then items as (k, text) pairs.
    kind L: the text is a JSON list of [member override, clause]; the set is built from Specifier objects carrying their own overrides.
    Checks gate / final-unaffected / monotone (over every way of enabling) / filter-exact / fall-back / filter idempotent / installed /
    history independence on the implementation."""
    import json
    kind, ctor, later, text = args[:4]
    prs = args[4:]
    nb = lambda x: None if x is None else bool(x)
    try:
        if kind == "X": mkobj = lambda o: Specifier(text, prereleases=TRI[o])
        elif kind == "S": mkobj = lambda o: SpecifierSet(text, prereleases=TRI[o])
        else:
            spec = json.loads(text)
            mkobj = lambda o: SpecifierSet([Specifier(t, prereleases=TRI[mo]) for mo, t in spec], prereleases=TRI[o])
        obj = mkobj(ctor)
    except InvalidSpecifier:
        return "ok"
    override = nb(TRI[ctor])
    if later != "keep":
        obj.prereleases = TRI[later]; override = nb(TRI[later])
    fresh = mkobj(tri(override))         # same latest override, no history
    items = [mk_item(prs[2 * k], prs[2 * k + 1]) for k in range(len(prs) // 2)]
    items = [x for x in items if isinstance(x, Version) or valid_items([x])]
    isset = kind != "X"
    if nb(obj.prereleases) is not nb(fresh.prereleases): return "prereleases property depends on history"
    if override is not None and nb(obj.prereleases) is not override: return "prereleases property ignores the override"
    if isset and override is None:
        exp = None if len(obj) == 0 else any(s.prereleases for s in obj)
        if nb(obj.prereleases) is not exp: return "SpecifierSet.prereleases is not any(member.prereleases)"
        if kind == "L" and exp is not None:
            # the layers: some member (first supplied of its == class) has its own override True, or has none and names a pre-release
            first = {}
            for mo, t in spec: first.setdefault(Specifier(t), (nb(TRI[mo]), t))
            lay = any(mo if mo is not None else bool(Specifier(t).prereleases) for mo, t in first.values())
            if exp is not lay: return "prereleases of an object-built set is not the disjunction over its members' overrides / own defaults"
    V = lambda x: x if isinstance(x, Version) else Version(x)
    answers = {}
    for arg in (None, True, False):
        eff = arg if arg is not None else nb(obj.prereleases)
        for j, x in enumerate(items):
            v = V(x)
            r = obj.contains(x, prereleases=arg)
            answers[(arg, j)] = (bool(eff), r)
            if r is not fresh.contains(x, prereleases=arg): return "contains depends on history: %r %r" % (text, str(v))
            if arg is None and r is not (x in obj): return "`in` differs from contains()"
            if v.is_prerelease and not eff and r: return "pre-release %s matched although pre-releases are not enabled (arg=%r)" % (v, arg)
            if not v.is_prerelease:
                if r is not obj.contains(x, prereleases=True) or r is not obj.contains(x, prereleases=False):
                    return "final release %s affected by the pre-release setting" % v
            if obj.contains(x, prereleases=False) and not obj.contains(x, prereleases=True): return "enabling pre-releases removed a match: %s" % v
            if r and not obj.contains(x, prereleases=True): return "a match under arg=%r is lost with prereleases=True: %s" % (arg, v)
            if isset:
                ri = obj.contains(x, prereleases=arg, installed=True)
                if v.is_prerelease and eff:
                    if ri is not obj.contains(Version(v.base_version), prereleases=arg): return "installed=True does not judge %s by its base version" % v
                elif ri is not r: return "installed=True changes the answer for %s outside the pre-release case" % v
        res = list(obj.filter(items, prereleases=arg))
        if [id(q) for q in res] != [id(q) for q in fresh.filter(items, prereleases=arg)]: return "filter depends on history"
        if arg is None and [id(q) for q in res] != [id(q) for q in obj.filter(items)]: return "filter() differs from filter(prereleases=None)"
        pos = positions(items, res)
        if pos is None: return "filter result is not a subsequence of the very input objects"
        if [id(q) for q in obj.filter(obj.filter(iter(items), prereleases=arg), prereleases=arg)] != [id(q) for q in res]: return "filter is not idempotent (filter of a filter)"
        if not set(pos) <= set(positions(items, list(obj.filter(items, prereleases=True)))): return "filter(prereleases=%r) returns an item that filter(prereleases=True) drops" % (arg,)
        fallback = arg is None and override is None and ((not isset and not obj.prereleases) or (isset and len(obj) == 0))
        acc = lambda x, e: obj.contains(x, prereleases=bool(e)) if not (isset and len(obj) == 0) else (not (V(x).is_prerelease and not e))
        if fallback:
            finals = [k for k, x in enumerate(items) if not V(x).is_prerelease and acc(x, True)]
            exp = finals if finals else [k for k, x in enumerate(items) if acc(x, True)]
        else:
            exp = [k for k, x in enumerate(items) if acc(x, eff)]
        if pos != exp: return "filter(prereleases=%r) returns positions %r, expected %r (%r, override %r)" % (arg, pos, exp, text, override)
    # the answer depends on (override, argument) only through the effective setting
    for (arg, j), (eff, r) in answers.items():
        for (arg2, j2), (eff2, r2) in answers.items():
            if j == j2 and eff == eff2 and r is not r2: return "contains differs under the same effective setting (%r vs %r)" % (arg, arg2)
    return "ok"


def law_reparse(args):
    """args: clause texts; the set is built from Specifier objects (so that any valid clause can be a member)."""
    try: ms = [Specifier(t) for t in args]
    except InvalidSpecifier: return "ok"
    a = SpecifierSet(ms)
    s = str(a)
    if s != str(SpecifierSet(list(reversed(ms)))) and len({m for m in ms}) == len({str(m) for m in ms}): return "str depends on the order of distinct members"
    try: back = SpecifierSet(s)
    except InvalidSpecifier: return "str(set) does not parse back: %r" % s
    if back != a or hash(back) != hash(a): return "str(set) does not parse back to an equal set: %r" % s
    if str(back) != s: return "str not idempotent: %r" % s
    return "ok"


def law_large(args):
    """a set of N flat clauses: filter() equals what contains() accepts, in order, under every pre-release argument; nothing but the documented
    exception may come out (size is not nesting)"""
    n, seed = int(args[0]), int(args[1])
    import random
    r = random.Random(seed)
    cl = [r.choice([">=0.%d", "!=9.%d", "<99.%d", ">0.0.%d", "~=0.%d", "!=1.%d.*"]) % i for i in range(n)]
    r.shuffle(cl)
    ss = SpecifierSet(",".join(cl))
    items = ["1.0", "0.0", "2.0a1", "9.7", "1.3.1", "50", "100", "1.0.dev1"]
    for pre in (None, True, False):
        # a non-empty set has no fall-back: also with no argument filter() is exactly what contains() accepts
        want = [x for x in items if ss.contains(x, prereleases=pre)] if pre is not None else [x for x in items if ss.contains(x)]
        got = list(ss.filter(items, prereleases=pre)) if pre is not None else list(ss.filter(items))
        if got != want: return "filter of a %d-clause set differs from contains (prereleases=%r): %r vs %r" % (n, pre, got, want)
    if len(ss) != len(set(cl)) or len(str(ss).split(",")) != len(ss): return "a %d-clause set loses clauses" % n
    if not (SpecifierSet(str(ss)) == ss) or hash(SpecifierSet(str(ss))) != hash(ss): return "str of a %d-clause set does not parse back to an equal set" % n
    return "ok"


def observe(cmd, args):
    if cmd == "law.s.large": return law_large(args)
    if cmd == "s.run": return run_prog(args)
    if cmd == "s.world": return run_world(args)
    if cmd == "law.s.c05": return law_c05(args)
    if cmd == "law.s.c06": return law_c06(args)
    if cmd == "law.s.reparse": return law_reparse(args)
    raise KeyError(cmd)
