"""Implementation-side observations of the licence domain (C19).  Public API only: canonicalize_license_expression and the
two data tables packaging.licenses._spdx.LICENSES / EXCEPTIONS (the anchors of the property)."""
import itertools, os, random, re, sys
from packaging.licenses import canonicalize_license_expression as cle, InvalidLicenseExpression
from packaging.licenses._spdx import LICENSES, EXCEPTIONS



def run(s):
    """None = InvalidLicenseExpression; anything else escapes (reported as !EXC:<Class> by the runner)."""
    try:
        return cle(s)
    except InvalidLicenseExpression:
        return None


# ----------------------------------------------------------------------------- harness-side reading of the property (shared: harness/gen_lic.py)
sys.path.insert(0, os.path.dirname(os.path.dirname(os.path.abspath(__file__))))
from gen_lic import KELVIN, WS, WS_SET, alower, tokenize, fold_tables
import gen_lic
IDS, EXCS = fold_tables([v["id"] for v in LICENSES.values()], [v["id"] for v in EXCEPTIONS.values()])


def spec(s, plus_on_ref):
    return gen_lic.spec(s, plus_on_ref, IDS, EXCS)


def in_domain(s):
    # every str is in the domain (lone surrogates included: they are non-ASCII, non-whitespace characters like any other)
    return isinstance(s, str)


def check_against_spec(s):
    if not in_domain(s): return "ok"
    got = run(s)
    a, b = spec(s, True), spec(s, False)
    depth = max([x[1] for x in (a, b) if x] or [0])
    allowed = {x[0] if x else None for x in (a, b)}
    if depth > 100: allowed.add(None)          # CPython parser limits (see LicModel.v): rejection is interpreter dependent
    if got not in allowed:
        return "spec says %r, implementation says %r for %r" % (sorted(map(repr, allowed)), got, s)
    if got is not None:
        again = run(got)
        if again != got and not (depth > 100 and again is None): return "not idempotent: %r -> %r -> %r" % (s, got, again)
    return "ok"


def relayout(rng, s, keep_case=False):
    """Another spelling of the same token sequence: different whitespace, different ASCII case outside LicenseRef suffixes."""
    toks = tokenize(s)
    out = ""
    for i, t in enumerate(toks):
        if not keep_case:
            if alower(t).startswith("licenseref-"):
                t = "".join(rng.choice([c.upper(), c.lower()]) for c in t[:11]) + t[11:]
            else:
                t = "".join(rng.choice([c.upper(), c.lower()]) if c.isascii() else c for c in t)
        sep = rng.choice(["", " ", " ", "  ", "\t", "\n", " ", "  ", " \x1f"])
        if i and sep == "" and not (t in "()" or toks[i - 1] in "()"): sep = " "
        out += (sep if i else rng.choice(["", " ", "\n"])) + t
    return out + rng.choice(["", " ", "\r\n"])


def eval_probe():
    """The two CPython limits the model's py_eval names, probed on the running interpreter."""
    def ev(e):
        try: return eval(e)
        except Exception as ex: return type(ex).__name__
    if ev("(" * 100 + "False" + ")" * 100) is not False: return "100 nested parentheses are refused"
    if ev("(" * 201 + "False" + ")" * 201) is False: return "201 nested parentheses are accepted"
    r = random.Random(7)
    for _ in range(300):            # worst-case surroundings at depth 100 must still parse
        e = "".join(r.choice(["(", "(False or ", "(False and ", "(False or False and ", "(False and False or False and "]) for _ in range(100))
        if ev(e + "False" + ")" * 100) is not False: return "depth-100 skeleton refused: " + e[:80]
    return "ok"


# first nesting depth n at which  shape*n + "MIT" + ")"*n  is rejected, as recorded for the CPython versions this was run on.
# The model only says "interpreter dependent" for 101..200 (LicModel.py_eval EvLimit); these numbers pin the band per shape, so that a
# drift inside it (another CPython, or a change of what the code feeds to eval) is visible.
DEPTH_SHAPES = ["(", "(MIT or ", "(MIT and ", "(MIT or gd and ", "(MIT WITH llgpl or gd and ", "(gd and MIT or ISC and "]
DEPTH_RECORDED = {(3, 12): [201, 200, 200, 187, 187, 187]}


def first_reject(accepts, lo=1, hi=230):
    """(first n in lo..hi with not accepts(n), monotone?)"""
    res = [accepts(n) for n in range(lo, hi + 1)]
    if all(res): return None, True
    k = res.index(False)
    return lo + k, not any(res[k:])


def depth_probe():
    """Exact first-reject nesting depth for six fixed shapes: through canonicalize_license_expression and through eval() on the
    skeleton the code builds for that shape; both must agree, be monotone, lie in 101..201, and equal the recorded values."""
    got = []
    for pre in DEPTH_SHAPES:
        def via_code(n): return run(pre * n + "MIT" + ")" * n) is not None
        sk = " ".join({"or": "or", "and": "and", "with": "or", "(": "(", ")": ")"}.get(t, "False") for t in tokenize(alower(pre))) + " "
        def via_eval(n):
            try: return eval(sk * n + "False" + " )" * n) is False
            except Exception: return False
        a, ma = first_reject(via_code); b, mb = first_reject(via_eval)
        if not (ma and mb): return "acceptance is not monotone in the nesting depth for shape %r" % pre
        if a != b: return "shape %r: the function first rejects depth %r, eval() of its skeleton depth %r" % (pre, a, b)
        if a is None or not (101 <= a <= 201): return "shape %r: first rejected depth %r is outside 101..201" % (pre, a)
        got.append(a)
    rec = DEPTH_RECORDED.get(tuple(sys.version_info[:2]))
    if rec is not None and got != rec: return "first rejected depths %r differ from the recorded %r" % (got, rec)
    return "ok"


def strict_ref_law(s):
    """SPDX proper: the idstring of a LicenseRef is not empty - an expression with a token 'LicenseRef-' / 'licenseref-+' (any ASCII case)
    is rejected, wherever the token stands (fix 8e6ceae)."""
    got = run(s)
    if got is not None and gen_lic.empty_ref_tokens(s):
        return "empty LicenseRef idstring accepted: %r -> %r" % (s, got)
    return "ok"


_REF = re.compile(r"(?:L|l)(?:I|i)(?:C|c)(?:E|e)(?:N|n)(?:S|s)(?:E|e)(?:R|r)(?:E|e)(?:F|f)-([A-Za-z0-9.-]+)", re.ASCII)


def simple_reading(t):
    """What one token means as a simple expression, written from SPDX Annex D (not from gen_lic.spec, not from the code):
    strict  = license-ref without document prefix ("LicenseRef-" in any ASCII case + 1*(ALPHA/DIGIT/"-"/".")) -> "LicenseRef-" + idstring
              | license-id | license-id "+"  (ids of the bundled table up to ASCII case; the split is forced: "+" iff the token ends in "+")
    extra   = the one form beyond it that LicIds.ref_with_plus names: a license-ref followed by "+"
    Returns (kind, canonical) with kind in {"strict", "ref+", None}.  (Coq: LicIds.strict_simple / ref_with_plus,
    C19_simple_ids_vs_spdx_proper.)"""
    m = _REF.fullmatch(t)
    if m: return "strict", "LicenseRef-" + m.group(1)
    if t.endswith("+"):
        m = _REF.fullmatch(t[:-1])
        if m: return "ref+", "LicenseRef-" + m.group(1) + "+"
    core, plus = (t[:-1], "+") if t.endswith("+") else (t, "")
    if not alower(core).startswith("licenseref-") and alower(core) in IDS: return "strict", IDS[alower(core)] + plus
    return None, None


def simple_law(t):
    """A token alone, and after WITH: the function accepts it exactly as the reading above says (an exception: the table id up to
    ASCII case), and returns that spelling."""
    if any(c in WS_SET or c in "()" for c in t) or not t: return "ok"
    kind, want = simple_reading(t)
    got = run(t)
    if got != want: return "simple expression %r: Annex D reading (%s) gives %r, implementation %r" % (t, kind, want, got)
    wantx = ("MIT WITH " + EXCS[alower(t)]) if alower(t) in EXCS else None
    gotx = run("MIT WITH " + t)
    if gotx != wantx: return "exception %r: reading gives %r, implementation %r" % (t, wantx, gotx)
    return "ok"


def lower_probe():
    """str.lower()/str.split() facts the model relies on, over all code points except surrogates."""
    for c in range(0x110000):
        if 0xD800 <= c <= 0xDFFF: continue
        ch = chr(c); lo = ch.lower()
        if ch.isspace() != (c in WS): return "whitespace table differs at U+%04X" % c
        if (len(("a" + ch + "b").split()) == 2) != (c in WS): return "str.split disagrees with isspace at U+%04X" % c
        if c < 128:
            exp = chr(c + 32) if 65 <= c <= 90 else ch
        elif c == 0x130: exp = "i̇"
        elif c == 0x212A: exp = "k"
        else:
            exp = None
            if any(ord(x) < 128 for x in lo) or any(x.isspace() for x in lo) != ch.isspace() or (ch.isspace() and lo != ch):
                return "lower() of U+%04X yields ASCII or whitespace: %r" % (c, lo)
            for ctx in ("a" + ch, ch + "a", "a" + ch + "a", "A" + ch + " "):       # context rules (final sigma) stay non-ASCII too
                z = ctx.lower()
                if sum(ord(x) < 128 for x in z) != sum(ord(x) < 128 for x in ctx): return "lower() in context changes ASCII content at U+%04X" % c
        if exp is not None and lo != exp: return "lower() of U+%04X is %r, model has %r" % (c, lo, exp)
    return "ok"


def observe(cmd, args):
    if cmd == "l.canon":
        r = run(args[0])
        return "E" if r is None else "OK|" + r
    if cmd == "l.sweep":
        mode, joiner, m, prefix, words = args[0], args[1], int(args[2]), args[3], args[4:]
        pre = [words[int(c)] for c in prefix]
        rs = [run(joiner.join(pre + list(suf))) for n in range(m + 1) for suf in itertools.product(words, repeat=n)]
        out = "".join("0" if r is None else "1" for r in rs)
        if mode == "o": out += "|" + "".join(r + "\n" for r in rs if r is not None)
        return out
    if cmd == "l.evalsweep":
        # the eval() component alone: replicate the first loop's two guards, then ask CPython
        m, prefix = int(args[0]), args[1]
        words = ["False", "or", "and", "(", ")"]
        pre = [words[int(c)] for c in prefix]
        bits = []
        for n in range(m + 1):
            for suf in itertools.product(words, repeat=n):
                sk, ok = [], True
                for t in pre + list(suf):
                    if t == "(" and sk and sk[-1] not in ("or", "and", "("): ok = False; break
                    if t == ")" and sk and sk[-1] == "(": ok = False; break
                    sk.append(t)
                if not ok: continue
                try: invalid = eval(" ".join(sk), globals(), locals())
                except Exception: invalid = True
                bits.append("1" if invalid is False else "0")
        return "%d:%s" % (len(bits), "".join(bits))
    if cmd == "law.l.spec":
        return check_against_spec(args[0])
    if cmd == "law.l.layout":
        # insensitivity: every relayout / recasing of the same token sequence has the same result
        s = args[1]
        if not in_domain(s): return "ok"
        rng = random.Random(int(args[0]))
        base = run(s)
        for _ in range(4):
            t = relayout(rng, s)
            got = run(t)
            if got != base:
                deep = s.count("(") > 100
                if not deep: return "layout/case changes the result: %r -> %r but %r -> %r" % (s, base, t, got)
        return "ok"
    if cmd == "l.spec":
        # not the implementation: the harness-side Python reading of the property, compared directly with the Coq specification
        return gen_lic.spec_obs(args[0], IDS, EXCS)
    if cmd == "law.l.evaldepth":
        return depth_probe()
    if cmd == "law.l.simple":
        return simple_law(args[0])
    if cmd == "law.l.strictref":
        return strict_ref_law(args[0])
    if cmd == "law.l.evalprobe":
        return eval_probe()
    if cmd == "law.l.lowerprobe":
        return lower_probe()
    raise KeyError(cmd)
