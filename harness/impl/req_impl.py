"""Implementation-side observations of the requirement domain (C08).  Public API only: Requirement(s).name/.extras/.specifier/.url/
.marker, str(), ==, hash(); SpecifierSet / Specifier / Marker / canonicalize_name as reference objects for the laws."""
import json
from packaging.requirements import Requirement, InvalidRequirement
from packaging.specifiers import SpecifierSet, Specifier, InvalidSpecifier
from packaging.markers import Marker, InvalidMarker
from packaging.utils import canonicalize_name


def parse(s):
    try: return Requirement(s)
    except InvalidRequirement: return None


def show(r):
    return "|".join(["OK", r.name, ",".join(sorted(r.extras)), str(r.specifier), "-" if r.url is None else "U" + r.url,
                     "-" if r.marker is None else "M" + str(r.marker), str(r)])


def same(a, b):
    return (a.name == b.name and a.extras == b.extras and a.specifier == b.specifier and str(a.specifier) == str(b.specifier)
            and a.url == b.url and a.marker == b.marker and str(a.marker) == str(b.marker))


# ---- behaviour of a requirement's own parts (observes C08_equal_requirements_sets_alike / _markers_alike on the real objects) ----
CANDS = ["0", "0.9", "1", "1.0", "1.0.0", "1.0a1", "1.0rc1", "1.0.dev1", "1.0.post1", "1.0+local", "1.1", "1.5", "2", "2.0", "2.0.1", "2.7.3",
         "3", "3.0", "7.0", "7.0.1", "7.1", "99.99.99", "1!0.5", "2!1.0"]
ENVS = [{"os_name": "posix", "sys_platform": "linux", "platform_machine": "x86_64", "platform_python_implementation": "CPython",
         "platform_release": "5.10.0", "platform_system": "Linux", "platform_version": "#1 SMP", "python_version": "3.8",
         "python_full_version": "3.8.10", "implementation_name": "cpython", "implementation_version": "3.8.10", "extra": "x"},
        {"os_name": "nt", "sys_platform": "win32", "platform_machine": "AMD64", "platform_python_implementation": "PyPy",
         "platform_release": "10", "platform_system": "Windows", "platform_version": "10.0.19041", "python_version": "2.7",
         "python_full_version": "2.7.18", "implementation_name": "pypy", "implementation_version": "7.3.1", "extra": "foo-bar"},
        {}]


def parsable(v):
    from packaging.version import Version, InvalidVersion
    try: Version(v); return True
    except InvalidVersion: return False


def own_versions(r):
    out = []
    for sp in r.specifier:
        v = sp.version[:-2] if sp.version.endswith(".*") else sp.version
        if parsable(v): out.append(v)
    return out


def set_behaviour(ss, cands):
    out = []
    for v in cands:
        for pre in (None, True, False):
            try: out.append(ss.contains(v, prereleases=pre))
            except Exception as e: out.append(type(e).__name__)
    for pre in (None, True, False):
        try: out.append([str(x) for x in ss.filter(cands, prereleases=pre)])
        except Exception as e: out.append(type(e).__name__)
    out.append(ss.prereleases)
    return out


def marker_behaviour(m):
    out = []
    for env in ENVS:
        try: out.append(m.evaluate(dict(env)))
        except Exception as e: out.append(type(e).__name__)
    return out


def observe(cmd, args):
    if cmd == "r.parse":
        r = parse(args[0])
        return "E" if r is None else show(r)
    if cmd == "r.rt":
        r = parse(args[0])
        if r is None: return "E"
        t = str(r)
        r2 = parse(t)
        return "|".join(["RT", t, "E" if r2 is None else show(r2), "-" if r2 is None else ("T" if r2 == r else "F")])
    if cmd == "r.eq":
        a, b = parse(args[0]), parse(args[1])
        if a is None or b is None: return "E"
        return "T" if a == b else "F"
    if cmd == "r.eqh":
        # == and "hash(a) == hash(b)" (the model: equality of the key that __hash__ hashes)
        a, b = parse(args[0]), parse(args[1])
        if a is None or b is None: return "E"
        return ("T" if a == b else "F") + ("T" if hash(a) == hash(b) else "F")
    if cmd == "law.r.roundtrip":
        # str(r) parses back to an equal requirement with the same string and hash; the parts are recovered
        r = parse(args[0])
        if r is None: return "ok"
        t = str(r)
        r2 = parse(t)
        if r2 is None: return "str(r) does not parse: %r" % t
        if str(r2) != t: return "str not idempotent: %r -> %r" % (t, str(r2))
        if not (r2 == r) or r2 != r: return "reparsed requirement not equal: %r" % t
        if hash(r2) != hash(r): return "reparsed requirement hashes differently: %r" % t
        if not (r == r) or hash(r) != hash(parse(args[0])): return "not reflexive / hash not deterministic"
        if r2.name != r.name or r2.extras != r.extras or r2.url != r.url: return "name/extras/url change on reparse: %r" % t
        if r2.specifier != r.specifier or str(r2.specifier) != str(r.specifier): return "specifier changes on reparse: %r" % t
        if (r.marker is None) != (r2.marker is None) or (r.marker is not None and (r.marker != r2.marker or str(r.marker) != str(r2.marker))):
            return "marker changes on reparse: %r" % t
        if r.url is not None and len(r.specifier) != 0: return "url and version clauses both present"
        if r.marker is not None:
            try: m = Marker(str(r.marker))
            except InvalidMarker: return "str(r.marker) is not a marker: %r" % str(r.marker)
            if m != r.marker or str(m) != str(r.marker): return "r.marker differs from Marker(str(r.marker))"
        # a Requirement is a plain mutable record: changing one object's parts must not change what the same text parses to
        before = show(parse(args[0]))
        r.extras.add("zz-injected")
        after = show(parse(args[0]))
        r.extras.discard("zz-injected")
        if before != after: return "adding an extra to one Requirement object changed what the same text parses to: %r -> %r" % (before, after)
        return "ok"
    if cmd == "law.r.decompose":
        # args: rendered string, JSON {name, extras, clauses (texts), url, marker (text)} - the structure it was rendered from
        s, E = args[0], json.loads(args[1])
        try: exp = SpecifierSet(",".join(E["clauses"]))
        except InvalidSpecifier: return "ok"                       # not a PEP 440 clause list: nothing is demanded
        mk = None
        if E["marker"] is not None:
            try: mk = Marker(E["marker"])
            except InvalidMarker: return "ok"
        r = parse(s)
        if r is None: return "rejected"
        if r.name != E["name"]: return "name: %r" % r.name
        if r.extras != set(E["extras"] or []): return "extras: %r" % sorted(r.extras)
        if (r.specifier != exp or {str(x) for x in r.specifier} != {str(x) for x in exp} or len(r.specifier) != len(exp)
                or any(Specifier(c) not in r.specifier._specs for c in E["clauses"]) or str(r.specifier) != str(exp)):
            return "specifier: %r, expected %r" % (str(r.specifier), str(exp))
        if r.url != E["url"]: return "url: %r" % r.url
        if (r.marker is None) != (mk is None): return "marker presence"
        if mk is not None and (r.marker != mk or str(r.marker) != str(mk) or hash(r.marker) != hash(mk)): return "marker: %r, expected %r" % (str(r.marker), str(mk))
        if r.url is not None and len(r.specifier) != 0: return "url and version clauses both present"
        return "ok"
    if cmd == "law.r.eq":
        # args: a, b, expected "T"/"F" computed by the generator from the structures (PEP 503 names, raw extras sets,
        # clause sets per specifier equality, url, marker)
        a, b, exp = parse(args[0]), parse(args[1]), args[2]
        if a is None or b is None: return "ok"
        got = a == b
        if got != (b == a): return "== not symmetric"
        if (a != b) == got: return "!= is not the negation of =="
        if got != (exp == "T"): return "equality is %s, expected %s" % (got, exp)
        if got and hash(a) != hash(b): return "equal but hashes differ"
        if got and len({a, b}) != 1: return "equal but do not collapse in a set"
        if got and (canonicalize_name(a.name) != canonicalize_name(b.name) or a.extras != b.extras or a.specifier != b.specifier or a.url != b.url or a.marker != b.marker):
            return "equal but parts differ"
        if got:
            # equal requirements behave alike through their own parts: .specifier contains / filters / reports prereleases alike on a
            # battery (fixed versions + the versions the two requirements mention), .marker evaluates alike in three environments
            cands = CANDS + sorted(set(own_versions(a) + own_versions(b)))
            if set_behaviour(a.specifier, cands) != set_behaviour(b.specifier, cands): return "equal but the specifier sets behave differently"
            if a.marker is not None and marker_behaviour(a.marker) != marker_behaviour(b.marker): return "equal but the markers evaluate differently"
        return "ok"
    if cmd == "law.r.triple":
        rs = [parse(x) for x in args]
        if any(r is None for r in rs): return "ok"
        for x in rs:
            for y in rs:
                if (x == y) != (y == x): return "== not symmetric"
                if x == y and hash(x) != hash(y): return "equal but hashes differ"
                for z in rs:
                    if x == y and y == z and not x == z: return "== not transitive"
        return "ok"
    if cmd == "law.r.urlmarker":
        # args: prefix "name @ url", marker text.  Without whitespace the ';...' is part of the URL; with it, it is the marker.
        p, m = args
        try: mk = Marker(m)
        except InvalidMarker: return "ok"
        a = parse(p + ";" + m)
        base = parse(p)
        if base is None or base.url is None: return "ok"
        if a is not None and (a.marker is not None or not a.url.startswith(base.url + ";")):
            return "marker recognised right after a URL without whitespace"
        b = parse(p + " ;" + m)
        if b is None or b.url != base.url or b.marker != mk: return "marker after URL + whitespace not recovered"
        return "ok"
    raise KeyError(cmd)
