"""Implementation-side observations of the version domain (C01, C02, C12-version)."""
import json
import random
from packaging.version import Version, InvalidVersion
from packaging.utils import canonicalize_version

def b(x): return "T" if x else "F"
def opt(x, f=str): return "-" if x is None else f(x)

def parse(s):
    try: return Version(s)
    except InvalidVersion: return None

def observe(cmd, args):
    if cmd == "v.parse":
        v = parse(args[0])
        if v is None: return "E"
        rel = v.release
        return "|".join(["OK", str(v), str(v.epoch), ".".join(map(str, rel)), opt(v.pre, lambda p: "%s,%d" % p), opt(v.post), opt(v.dev),
                         opt(v.local), v.public, v.base_version, b(v.is_prerelease), b(v.is_postrelease), b(v.is_devrelease),
                         str(v.major), str(v.minor), str(v.micro)])
    if cmd == "v.cmp":
        x, y = parse(args[0]), parse(args[1])
        if x is None or y is None: return "E"
        fl = [x < y, x <= y, x == y, x != y, x >= y, x > y]
        return "".join(b(f) for f in fl) + "|" + ("<" if fl[0] else "=" if fl[2] else ">")
    if cmd == "v.cmph":
        # v.cmp plus: do the two hashes agree (model side: are the two keys structurally equal)
        x, y = parse(args[0]), parse(args[1])
        if x is None or y is None: return "E"
        fl = [x < y, x <= y, x == y, x != y, x >= y, x > y]
        return "".join(b(f) for f in fl) + "|" + ("<" if fl[0] else "=" if fl[2] else ">") + "|" + b(hash(x) == hash(y))
    if cmd == "v.sort":
        vs = [parse(a) for a in args]
        if any(v is None for v in vs): return "E"
        return ",".join(str(v) for v in sorted(vs))
    if cmd == "v.canon":
        return canonicalize_version(args[1], strip_trailing_zero=(args[0] == "T"))
    if cmd == "law.v.triple":
        vs = [parse(a) for a in args]
        if any(v is None for v in vs): return "ok"
        for x in vs:
            if not (x == x and x <= x and x >= x and not x < x and not x > x and not x != x and hash(x) == hash(Version(str(x)))):
                return "not reflexive: %s" % x
        for x in vs:
            for y in vs:
                n = (x < y) + (x == y) + (x > y)
                if n != 1: return "trichotomy fails: %s %s" % (x, y)
                if (x <= y) != (x < y or x == y) or (x >= y) != (x > y or x == y) or (x != y) != (not x == y): return "operators disagree: %s %s" % (x, y)
                if (x < y) != (y > x) or (x == y) != (y == x): return "not mirrored: %s %s" % (x, y)
                if x == y and hash(x) != hash(y): return "equal but hashes differ: %s %s" % (x, y)
                if x == y and len({x, y}) != 1: return "equal but do not collapse in a set: %s %s" % (x, y)
                for z in vs:
                    if x < y and y < z and not x < z: return "< not transitive: %s %s %s" % (x, y, z)
                    if x == y and y == z and not x == z: return "== not transitive: %s %s %s" % (x, y, z)
                    if x == y and (x < z) != (y < z): return "== not a congruence for <: %s %s %s" % (x, y, z)
                    if x <= y and y <= z and not x <= z: return "<= not transitive: %s %s %s" % (x, y, z)
        return "ok"
    if cmd == "law.v.sortperm":
        vs = [parse(a) for a in args[1:]]
        if any(v is None for v in vs): return "ok"
        r = random.Random(int(args[0]))
        s1 = sorted(vs)
        for _ in range(3):
            p = vs[:]; r.shuffle(p)
            s2 = sorted(p)
            if len(s1) != len(s2) or any(not (a == c) for a, c in zip(s1, s2)): return "sorting two orders of the same versions differs"
            if any(s2[i] > s2[i + 1] for i in range(len(s2) - 1)): return "sorted output not ascending"
        return "ok"
    if cmd == "law.v.canon":
        # canonicalize_version is a complete invariant of equality, idempotent, reparses equal
        a, c = args
        out = []
        for s in (a, c):
            for strip in (True, False):
                k = canonicalize_version(s, strip_trailing_zero=strip)
                if canonicalize_version(k, strip_trailing_zero=strip) != k: return "not idempotent on %r" % s
                v = parse(s)
                if v is None:
                    if k != s: return "non-version changed: %r" % s
                else:
                    if parse(k) is None or parse(k) != v: return "canonical form of %r does not reparse equal" % s
                    if not strip and k != str(v): return "strip_trailing_zero=False differs from str(Version) on %r" % s
        x, y = parse(a), parse(c)
        if x is not None and y is not None:
            if (canonicalize_version(a) == canonicalize_version(c)) != (x == y): return "canonical strings %s equality: %r %r" % ("miss" if x == y else "conflate", a, c)
            same = (x.epoch, x.release, x.pre, x.post, x.dev, x.local) == (y.epoch, y.release, y.pre, y.post, y.dev, y.local)
            if (canonicalize_version(a, strip_trailing_zero=False) == canonicalize_version(c, strip_trailing_zero=False)) != same or (str(x) == str(y)) != same:
                return "str() / unstripped canonical string is not an exact invariant of the components: %r %r" % (a, c)
        return "ok"
    if cmd == "law.v.roundtrip":
        v = parse(args[0])
        if v is None: return "ok"
        w = parse(str(v))
        if w is None: return "str(v) does not parse: %r" % str(v)
        if str(w) != str(v): return "str not idempotent"
        if w != v or hash(w) != hash(v): return "reparsed version not equal"
        if (w.epoch, w.release, w.pre, w.post, w.dev, w.local) != (v.epoch, v.release, v.pre, v.post, v.dev, v.local): return "components change on reparse"
        p, bs = parse(v.public), parse(v.base_version)
        if p is None or bs is None: return "public/base_version does not parse"
        if (p.epoch, p.release, p.pre, p.post, p.dev, p.local) != (v.epoch, v.release, v.pre, v.post, v.dev, None): return "public is not v without local"
        if (bs.epoch, bs.release, bs.pre, bs.post, bs.dev, bs.local) != (v.epoch, v.release, None, None, None, None): return "base_version is not epoch+release"
        # theorems C02 10-12: public / base_version are str() of the reduced version and idempotent; canonicalize_version of str(v) and of the text agree
        if str(p) != v.public or p.public != v.public: return "public is not the normal form of the version without local"
        if str(bs) != v.base_version or bs.base_version != v.base_version or p.base_version != v.base_version: return "base_version is not a normal form / not idempotent"
        if v.local is None and v.public != str(v): return "public differs from str() without a local label"
        for z in (True, False):
            if canonicalize_version(str(v), strip_trailing_zero=z) != canonicalize_version(args[0], strip_trailing_zero=z): return "canonicalize_version differs between the text and str(v)"
        # theorem C02_prerelease_is_below_its_final: is_prerelease <=> v sorts strictly below v without its pre-release and dev segments
        fin = parse(("%d!" % v.epoch) + ".".join(map(str, v.release)) + ("" if v.post is None else ".post%d" % v.post) + ("" if v.local is None else "+" + v.local))
        if fin is None: return "the version without pre/dev segments does not parse"
        if v.is_prerelease != (v < fin) or (not v.is_prerelease and v != fin): return "is_prerelease disagrees with the order: %r against %r" % (str(v), str(fin))
        if v.is_postrelease != (v.post is not None) or v.is_devrelease != (v.dev is not None): return "is_postrelease / is_devrelease disagree with the components"
        return "ok"
    if cmd == "law.v.rank":
        # independent oracle: args = [a, b, rel] with rel in "<=>" computed by the harness from the structured versions (gen.rank)
        x, y = parse(args[0]), parse(args[1])
        if x is None or y is None: return "spelling of a structured version rejected: %r %r" % (args[0], args[1])
        want = {"<": (True, True, False, True, False, False), "=": (False, True, True, False, True, False),
                ">": (False, False, False, True, True, True)}[args[2]]
        got = (x < y, x <= y, x == y, x != y, x >= y, x > y)
        if got != want: return "operators %s disagree with the reference order %s" % ("".join(b(f) for f in got), args[2])
        rev = (y > x, y >= x, y == x, y != x, y <= x, y < x)
        if rev != want: return "mirrored operators %s disagree with the reference order %s" % ("".join(b(f) for f in rev), args[2])
        if args[2] == "=" and hash(x) != hash(y): return "reference-equal versions hash differently"
        if args[2] == "=" and len({x, y}) != 1: return "reference-equal versions do not collapse in a set"
        if args[2] != "=" and len({x, y}) != 2: return "reference-different versions collapse in a set"
        s2 = sorted([y, x]); lo, hi = (x, y) if args[2] != ">" else (y, x)
        if args[2] != "=" and not (s2[0] is lo and s2[1] is hi): return "sorted() disagrees with the reference order"
        return "ok"
    if cmd == "law.v.reading":
        # independent oracle: args = [spelling, json(reading of the structured version it was spelled from)]
        v = parse(args[0]); w = json.loads(args[1])
        if v is None: return "spelling of a structured version rejected"
        got = {"str": str(v), "epoch": v.epoch, "release": list(v.release), "pre": list(v.pre) if v.pre is not None else None,
               "post": v.post, "dev": v.dev, "local": v.local, "public": v.public, "base": v.base_version,
               "is_pre": v.is_prerelease, "is_post": v.is_postrelease, "is_dev": v.is_devrelease,
               "major": v.major, "minor": v.minor, "micro": v.micro}
        for k in w:
            if got[k] != w[k] or type(got[k]) is not type(w[k]): return "%s is %r, the PEP 440 reading is %r" % (k, got[k], w[k])
        if canonicalize_version(args[0], strip_trailing_zero=False) != w["str"]: return "canonicalize_version(strip_trailing_zero=False) is not the normal form"
        return "ok"
    raise KeyError(cmd)
