"""Implementation-side observations of the e-mail domain (C18): parse_email(data) -> (raw, unparsed).
`e.extract` produces the model's input: what the stdlib `email` package delivers for the document (header list with decoded values and
their "valid encoding" flag, payload or payload error) - it repeats the first lines of parse_email on the same parser calls."""
import email.header, email.parser, email.policy, json, random
from packaging.metadata import parse_email

# core-metadata header-name -> RawMetadata key, and field kinds (independent of the working tree; used by the direct law cases only)
MAP = {"author": "author", "author-email": "author_email", "classifier": "classifiers", "description": "description",
       "description-content-type": "description_content_type", "download-url": "download_url", "dynamic": "dynamic", "home-page": "home_page",
       "keywords": "keywords", "license": "license", "license-expression": "license_expression", "license-file": "license_files",
       "maintainer": "maintainer", "maintainer-email": "maintainer_email", "metadata-version": "metadata_version", "name": "name",
       "obsoletes": "obsoletes", "obsoletes-dist": "obsoletes_dist", "platform": "platforms", "project-url": "project_urls", "provides": "provides",
       "provides-dist": "provides_dist", "provides-extra": "provides_extra", "requires": "requires", "requires-dist": "requires_dist",
       "requires-external": "requires_external", "requires-python": "requires_python", "summary": "summary",
       "supported-platform": "supported_platforms", "version": "version"}
LIST = {"classifiers", "dynamic", "license_files", "obsoletes", "obsoletes_dist", "platforms", "provides", "provides_dist", "provides_extra", "requires",
        "requires_dist", "requires_external", "supported_platforms"}
INV = {v: k for k, v in MAP.items()}


def show_s(s):
    return '"' + ".".join(str(ord(c)) for c in s) + '"'


def opaque(obj):
    if obj is None: return "None"
    if isinstance(obj, bytes): return "bytes:" + obj.hex()
    if isinstance(obj, list): return "multipart:%d" % len(obj)
    if isinstance(obj, str): return "str:" + obj
    return "object:" + type(obj).__name__


def render(v):
    if isinstance(v, str): return show_s(v)
    if isinstance(v, list): return "[" + ",".join(show_s(x) for x in v) + "]"
    if isinstance(v, dict): return "{" + ",".join(show_s(k) + ":" + show_s(x) for k, x in v.items()) + "}"
    return "?" + type(v).__name__


def render_u(x):
    return show_s(x) if isinstance(x, str) else "?" + show_s(opaque(x))


def show_result(raw, unparsed):
    return (";".join(show_s(k) + "=" + render(raw[k]) for k in sorted(raw)) + "|" +
            ";".join(show_s(k) + "=[" + ",".join(render_u(x) for x in unparsed[k]) + "]" for k in sorted(unparsed)))


def source(kind, text):
    return text if kind == "s" else text.encode("latin-1")


def parse_doc(data):
    if isinstance(data, str): return email.parser.Parser(policy=email.policy.compat32).parsestr(data)
    return email.parser.BytesParser(policy=email.policy.compat32).parsebytes(data)


def extract(data):
    """The e-mail package's view of the document, as tokens for the model."""
    parsed = parse_doc(data)
    toks = []
    for name, h in parsed.items():          # = for each header in document order what get_all(name) returns for it
        valid = True
        if isinstance(h, email.header.Header):
            chunks = []
            for bin, _enc in email.header.decode_header(h):
                try:
                    bin.decode("utf8", "strict"); enc = "utf8"
                except UnicodeDecodeError:
                    enc = "latin1"; valid = False
                chunks.append((bin, enc))
            value = str(email.header.make_header(chunks))
        else:
            value = h
        toks += ["H" + name, ("V" if valid else "W") + value]
    # _get_payload
    err = False
    if isinstance(data, str):
        payload = parsed.get_payload()
        if not isinstance(payload, str): err = True
    else:
        bp = parsed.get_payload(decode=True)
        if not isinstance(bp, bytes): err = True
        else:
            try: payload = bp.decode("utf8", "strict")
            except UnicodeDecodeError: err = True
    if err: toks.append("Z" + opaque(parsed.get_payload(decode=isinstance(data, bytes))))
    else: toks.append("Y" + payload)
    return toks


def spec(headers, valid, payload_ok, payload):
    """Independent reading of the property text; headers: [(name, value)], valid: {lowered name: bool}."""
    raw, unp = {}, {}
    names = []
    for k, _ in headers:
        if k.lower() not in names: names.append(k.lower())
    for nm in names:
        vals = [v for k, v in headers if k.lower() == nm]
        rk = MAP.get(nm)
        if not valid[nm] or rk is None: unp[nm] = vals
        elif rk in LIST: raw[rk] = vals
        elif rk == "keywords":
            if len(vals) == 1: raw[rk] = [x.strip() for x in vals[0].split(",")]
            else: unp[nm] = vals
        elif rk == "project_urls":
            d = {}; dup = False
            for p in vals:
                parts = [x.strip() for x in p.split(",", 1)] + [""]
                if parts[0] in d: dup = True; break
                d[parts[0]] = parts[1]
            if dup: unp[nm] = vals
            else: raw[rk] = d
        elif len(vals) == 1: raw[rk] = vals[0]
        else: unp[nm] = vals
    if not payload_ok or payload:
        if "description" in raw: unp.setdefault("description", []).append(raw.pop("description"))
        if payload_ok and "description" not in unp: raw["description"] = payload
        else: unp.setdefault("description", []).append(payload)
    return raw, unp


def serialise(raw, spell=None):
    """the serialiser of the property statement; spell(header) gives the capitalisation of ONE header line (default: Title-Case)"""
    sp = spell or (lambda h: h)
    out = []
    for k, v in raw.items():
        h = INV[k].title()
        if k in LIST: out += ["%s: %s" % (sp(h), x) for x in v]
        elif k == "keywords": out.append("%s: %s" % (sp(h), ",".join(v)))
        elif k == "project_urls": out += ["%s: %s, %s" % (sp(h), a, b) for a, b in v.items()]
        elif k == "description": continue
        else: out.append("%s: %s" % (sp(h), v))
    s = "".join(l + "\n" for l in out)
    if "description" in raw: s += "\n" + raw["description"]
    return s


def decode_raw(toks):
    d, cur, label = {}, None, None
    for t in toks:
        tag, body = t[:1], t[1:]
        if tag == "K": cur = body; d[cur] = ""
        elif tag == "S": d[cur] = body
        elif tag == "L": d[cur] = []
        elif tag == "I": d[cur].append(body)
        elif tag == "D": d[cur] = {}
        elif tag == "P": label = body
        elif tag == "Q": d[cur][label] = body
    return d


def observe(cmd, args):
    if cmd == "e.extract":
        return json.dumps(extract(source(args[0], args[1])))
    if cmd == "e.parse":
        kind = "s" if args[0][:1] == "X" else "b"
        raw, unparsed = parse_email(source(kind, args[0][1:]))
        return show_result(raw, unparsed)
    if cmd == "e.lines":
        # what the email package delivers for a str document: (name, value) pairs in order and the body
        toks = extract(args[0])
        out = []
        for i in range(0, len(toks) - 1, 2):
            out.append(show_s(toks[i][1:]) + "=" + ("" if toks[i + 1][0] == "V" else "!") + show_s(toks[i + 1][1:]))
        return ";".join(out) + "|" + (show_s(toks[-1][1:]) if toks[-1][0] == "Y" else "!")
    if cmd == "law.e.spec":
        # the statement read directly: partition, no loss / no invention, typing, description rule - on the implementation's answer
        data = source(args[0], args[1])
        raw, unparsed = parse_email(data)
        toks = extract(data)
        headers, valid = [], {}
        for i in range(0, len(toks) - 1, 2):
            n, v = toks[i][1:], toks[i + 1]
            headers.append((n, v[1:])); valid[n.lower()] = valid.get(n.lower(), True) and v[0] == "V"
        p = toks[-1]
        if p[0] == "Y": want = spec(headers, valid, True, p[1:])
        else:
            want = spec(headers, valid, False, None)
        got_u = {k: [x if isinstance(x, str) else None for x in v] for k, v in unparsed.items()}
        if (raw, got_u) != want: return "parse_email gives %r, the statement gives %r" % ((raw, got_u), want)
        # each name in exactly one dict; every value somewhere, nothing invented (counting)
        for nm in valid:
            inraw = MAP.get(nm) in raw if nm in MAP else False
            if inraw == (nm in unparsed): return "header %r is in %s" % (nm, "both dicts" if inraw else "neither dict")
        for k, v in raw.items():
            if k not in INV: return "raw key %r is not a RawMetadata key" % k
            ok = isinstance(v, dict) if k == "project_urls" else isinstance(v, list) if (k in LIST or k == "keywords") else isinstance(v, str)
            if not ok: return "raw[%r] has type %s" % (k, type(v).__name__)
        return "ok"
    if cmd == "law.e.roundtrip":
        raw = decode_raw(args)
        s = serialise(raw)
        for data in (s, s.encode("utf8")):
            got = parse_email(data)
            if got != (raw, {}): return "serialised %r (%s) parses to %r" % (s, type(data).__name__, got)
        return "ok"
    if cmd == "law.e.roundtrip2":
        rng = random.Random(int(args[0]))
        raw = decode_raw(args[1:])
        s = serialise(raw, lambda h: "".join(c.upper() if rng.random() < 0.5 else c.lower() for c in h))
        for data in (s, s.encode("utf8")):
            got = parse_email(data)
            if got != (raw, {}): return "serialised %r (%s) parses to %r" % (s, type(data).__name__, got)
        return "ok"
    if cmd == "law.e.roundtrip-neg":
        # outside the well-formedness domain the round trip does NOT hold; the observed results are pinned (str and bytes)
        raw, want = json.loads(args[0]), json.loads(args[1])
        s = serialise(raw)
        surrogate = any(0xD800 <= ord(c) < 0xE000 for c in s)          # such a str has no UTF-8 form: str input only
        for data in ((s,) if surrogate else (s, s.encode("utf8"))):
            got = parse_email(data)
            if [got[0], got[1]] != want: return "serialised %r (%s) parses to %r, pinned %r" % (s, type(data).__name__, got, want)
            if got == (raw, {}): return "this dict round-trips after all: %r" % (raw,)
        return "ok"
    if cmd == "law.e.strbytes":
        a = parse_email(args[0]); b = parse_email(args[0].encode("utf8"))
        return "ok" if a == b else "str input gives %r, the same document as UTF-8 bytes gives %r" % (a, b)
    if cmd == "law.e.pairs":
        # the statement applied to the (name, value) list the GENERATOR wrote (value without the blanks after the colon) - no email call here
        hs, body, text = json.loads(args[0]), args[1], args[2]
        headers = [(n, v.lstrip(" \t")) for n, v in hs]
        want = spec(headers, {n.lower(): True for n, _ in hs}, True, body)
        for data in (text, text.encode("utf8")):
            got = parse_email(data)
            if got != want: return "document %r (%s): parse_email gives %r, the statement gives %r" % (text, type(data).__name__, got, want)
        return "ok"
    raise KeyError(cmd)
