"""Implementation-side observations of the marker domain (C07, C09).  Public API only."""
import json
from unittest import mock
from packaging.markers import Marker, InvalidMarker, UndefinedComparison, default_environment
from packaging.requirements import Requirement, InvalidRequirement


def mk(s):
    try: return Marker(s)
    except InvalidMarker: return None


def ev(m, env):
    """T | F | U ; anything else escapes"""
    try: return "T" if m.evaluate(env) else "F"
    except UndefinedComparison: return "U"


def parse_entries(entries):
    d, o = {}, {}
    for e in entries:
        tag, body = e[0], e[1:]
        if "=" in body:
            k, v = body.split("=", 1)
        elif body.endswith("!"):
            k, v = body[:-1], None
        else:
            continue
        (o if tag == "o" else d)[k] = v
    return d, o


def observe(cmd, args):
    if cmd == "k.defaults":
        return json.dumps(default_environment(), sort_keys=True)
    if cmd == "k.eval":
        m = mk(args[0])
        if m is None: return "I"
        d, o = parse_entries(args[2:])
        host = dict(default_environment())
        if d and d != host:
            # the detected python_full_version may be replaced (platform.python_version() patched): the only detected value whose
            # form matters to evaluate() - a trailing '+' (CPython built from a development checkout) triggers the repair
            if {k for k in set(d) | set(host) if d.get(k) != host.get(k)} != {"python_full_version"}: return "!defaults-differ"
            with mock.patch("platform.python_version", return_value=d["python_full_version"]):
                if dict(default_environment()) != d: return "!defaults-differ"
                return _ev_none(m) if args[1] == "N" else ev(m, o)
        if args[1] == "N": return _ev_none(m)
        return ev(m, o)
    if cmd == "k.str":
        m = mk(args[0])
        return "I" if m is None else "S" + str(m)
    if cmd == "k.eq":
        a, b = mk(args[0]), mk(args[1])
        if a is None or b is None: return "I"
        eq = a == b
        if eq != (b == a): return "!asymmetric"
        if (a != b) == eq: return "!ne-disagrees"
        if eq and hash(a) != hash(b): return "!equal-but-hash-differs"
        return "T" if eq else "F"

    # ---------------- laws evaluated directly on the implementation ----------------
    if cmd == "law.k.roundtrip":
        m = mk(args[0])
        if m is None: return "ok"
        if "\\" in args[0]: return "ok"      # the backslash is not a PEP 508 string character: literals holding one are outside C09
        t = str(m)
        if str(m) != t: return "str() not stable"
        m2 = mk(t)
        if m2 is None: return "str(m) does not parse: %r" % t
        if str(m2) != t: return "str not idempotent: %r -> %r" % (t, str(m2))
        if not (m2 == m) or m2 != m: return "reparsed marker unequal: %r" % t
        if hash(m2) != hash(m): return "reparsed marker hashes differently"
        for e in args[1:]:
            env = json.loads(e)
            a, b = ev(m, dict(env)), ev(m2, dict(env))
            if a != b: return "str(m) evaluates differently: %r: %s vs %s under %r" % (t, a, b, env)
        return "ok"
    if cmd == "law.k.variants":
        a, b = mk(args[0]), mk(args[1])
        if a is None or b is None: return "a variant of a well-formed marker is rejected: %r %r" % (args[0], args[1])
        if str(a) != str(b): return "variants print differently: %r vs %r" % (str(a), str(b))
        if not (a == b) or a != b: return "variants unequal"
        if hash(a) != hash(b): return "variants hash differently"
        if len({a, b}) != 1: return "variants do not collapse in a set"
        for e in args[2:]:
            env = json.loads(e)
            x, y = ev(a, dict(env)), ev(b, dict(env))
            if x != y: return "variants evaluate differently: %s vs %s under %r" % (x, y, env)
        return "ok"
    if cmd == "law.k.distinct":
        # texts of formulas with different structure must not be conflated by ==
        a, b = mk(args[0]), mk(args[1])
        if a is None or b is None: return "rejected"
        if (a == b) != (str(a) == str(b)): return "== is not equality of str"
        if a == b and hash(a) != hash(b): return "equal but hashes differ"
        return "ok"
    if cmd == "law.k.env":
        # environment rules: overrides win, the rest is default_environment(), extra defaults to "", None reads as ""
        m = mk(args[0])
        if m is None: return "ok"
        part = json.loads(args[1])
        before = dict(part)
        r1 = ev(m, part)
        if part != before: return "evaluate() changed the mapping it was given"
        if ev(m, part) != r1: return "evaluate() is not a function of its arguments"
        if len(args) > 2:
            # the same object under another environment, then the first again: each answer is what a fresh object gives
            part2 = json.loads(args[2])
            if ev(m, part2) != ev(mk(args[0]), part2): return "evaluate() under %r after %r differs from a fresh Marker's answer" % (part2, part)
            if ev(m, part) != r1: return "evaluate() under %r changed after evaluating under %r" % (part, part2)
        full = dict(default_environment()); full["extra"] = ""; full.update(part)
        if full.get("extra") is None: full["extra"] = ""
        r2 = ev(m, full)
        if r1 != r2: return "partial mapping %r: %s, but %s with every key spelled out" % (part, r1, r2)
        if "extra" in part and part["extra"] is None:
            p2 = dict(part); p2["extra"] = ""
            if ev(m, p2) != r1: return "extra=None differs from extra=''"
        if not part:
            if _ev_none(m) != r1: return "evaluate() differs from evaluate({})"
        pfv = full["python_full_version"]
        if pfv.endswith("+"):
            p3 = dict(full); p3["python_full_version"] = pfv + "local"
            if ev(m, p3) != r1: return "python_full_version %r not read as %r" % (pfv, pfv + "local")
        return "ok"
    if cmd == "law.k.repair":
        # a DETECTED python_full_version ending in '+' (platform.python_version() of a development build) is read as  <it>local :
        # evaluate() without a mapping, and with a mapping that does not supply the key, equals evaluation with the completed value
        # spelled out; a detected value without '+' is used as it is
        m = mk(args[0])
        if m is None: return "ok"
        det = args[1]
        with mock.patch("platform.python_version", return_value=det):
            if default_environment()["python_full_version"] != det: return "patch not effective"
            r0 = _ev_none(m)
            r1 = ev(m, {})
            r2 = ev(m, {"extra": None})
            want = ev(m, {"python_full_version": det + "local" if det.endswith("+") else det})
        if not (r0 == r1 == r2 == want): return "detected python_full_version %r: evaluate() %s, evaluate({}) %s, with the completed value spelled out %s" % (det, r0, r1, want)
        if det.endswith("+"):
            from packaging.version import Version, InvalidVersion
            try: base_ok = Version(det[:-1]).local is None and det[:-1] == det[:-1].rstrip()      # the hypotheses of C07_repair_valid_version
            except InvalidVersion: base_ok = False
            if base_ok:
                try: v = Version(det + "local")
                except InvalidVersion: return "the completed value %r is not a valid version" % (det + "local")
                if v.local != "local": return "the completed value %r has local label %r" % (det + "local", v.local)
        return "ok"
    if cmd == "law.k.deep":
        # a deeply nested well-formed marker: accepted, evaluates to the value of the formula, prints a text that reparses equal
        m = mk(args[0])
        if m is None: return "a well-formed marker is rejected"
        r = ev(m, {"os_name": "b"})
        if r != args[1]: return "evaluates to %s, the formula has value %s" % (r, args[1])
        t = str(m)
        m2 = mk(t)
        if m2 is None: return "str(m) does not parse"
        if str(m2) != t or not (m2 == m) or hash(m2) != hash(m): return "str(m) does not reparse to an equal marker"
        if ev(m2, {"os_name": "b"}) != r: return "str(m) evaluates differently"
        return "ok"
    if cmd == "law.k.extra":
        # a name compared with extra is PEP 503 / 685 normalised on both sides: lower-cased (str.lower, non-ASCII letters too) with runs of
        # '-', '_', '.' collapsed.  The expected answer comes from the harness's own folding (args[2]), not from canonicalize_name.
        a, b, want_eq = args[0], args[1], args[2] == "T"
        for txt, want in (('extra == "%s"' % a, want_eq), ('extra != "%s"' % a, not want_eq), ('"%s" == extra' % a, want_eq),
                          ('os_name == "zz" or (extra == "%s")' % a, want_eq)):
            m = mk(txt)
            if m is None: return "ok"
            got = ev(m, {"extra": b, "os_name": "posix"})
            if got != ("T" if want else "F"): return "%s under extra=%r gives %s, the normalised names are %s" % (txt, b, got, "equal" if want_eq else "different")
            try: r = Requirement("pkg; " + txt)
            except InvalidRequirement: return "Requirement rejects %r" % txt
            if ev(r.marker, {"extra": b, "os_name": "posix"}) != ("T" if want else "F"): return "Requirement(...).marker: %s under extra=%r is not %s" % (txt, b, want)
        return "ok"
    if cmd == "law.k.reqeval":
        m = mk(args[0])
        try: r = Requirement(args[1] + ";" + args[0])
        except InvalidRequirement: r = None
        if m is None or r is None or r.marker is None: return "ok" if (m is None) == (r is None) else "Requirement and Marker disagree on acceptance"
        env = json.loads(args[2])
        a, b = ev(m, dict(env)), ev(r.marker, dict(env))
        if a != b: return "Requirement(...).marker evaluates to %s, Marker(...) to %s" % (b, a)
        if _ev_none(m) != _ev_none(r.marker): return "evaluate() without mapping differs"
        return "ok"
    if cmd == "law.k.req":
        m = mk(args[0])
        prefix = args[1] if len(args) > 1 else "pkg "
        tail = args[2] if len(args) > 2 else ""
        if args[0].endswith("\n"): tail = ""       # END ('$') matches before ONE final newline only; the text already has it
        try: r = Requirement(prefix + ";" + args[0] + tail)
        except InvalidRequirement: r = None
        if tail and m is not None and mk(args[0] + tail) is None: return "Marker rejects the text followed by %r" % tail
        if m is None: return "ok" if r is None else "Requirement accepts a marker that Marker rejects"
        if r is None: return "Requirement rejects a marker that Marker accepts"
        if r.marker is None: return "marker lost"
        if str(r.marker) != str(m): return "Requirement(...).marker prints %r, Marker prints %r" % (str(r.marker), str(m))
        if not (r.marker == m) or hash(r.marker) != hash(m): return "Requirement(...).marker unequal to the stand-alone Marker"
        return "ok"
    if cmd == "law.k.literaleval":
        # the oracle boundary of the model: ast.literal_eval on a quoted token without backslash is the identity on its body,
        # except that NUL, LF and CR make it fail; checked per code point, both quotes
        import ast
        lo, hi = int(args[0]), int(args[1])
        for c in range(lo, hi):
            if 0xD800 <= c <= 0xDFFF or c == 92: continue
            ch = chr(c)
            for q in "'\"":
                if ch == q: continue
                try: v = ast.literal_eval(q + "a" + ch + "b" + q)
                except (SyntaxError, ValueError): v = None
                want = None if c in (0, 10, 13) else "a" + ch + "b"
                if v != want: return "literal_eval on U+%04X with %s: %r" % (c, q, v)
        return "ok"
    raise KeyError(cmd)


def _ev_none(m):
    try: return "T" if m.evaluate() else "F"
    except UndefinedComparison: return "U"
