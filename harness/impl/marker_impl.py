"""Implementation-side observations of the marker domain (C07, C09).  Public API only."""
import json
from packaging.markers import Marker, InvalidMarker, UndefinedComparison, default_environment
from packaging.requirements import Requirement, InvalidRequirement


def mk(s):
    try: return Marker(s)
    except InvalidMarker: return None


def ev(m, env):
    """T | F | U ; anything else escapes"""
    try: return "T" if m.evaluate(env) else "F"
    except UndefinedComparison: return "U"


def parse_entries(entries):
    d, o = {}, {}
    for e in entries:
        tag, body = e[0], e[1:]
        if "=" in body:
            k, v = body.split("=", 1)
        elif body.endswith("!"):
            k, v = body[:-1], None
        else:
            continue
        (o if tag == "o" else d)[k] = v
    return d, o


def observe(cmd, args):
    if cmd == "k.defaults":
        return json.dumps(default_environment(), sort_keys=True)
    if cmd == "k.eval":
        m = mk(args[0])
        if m is None: return "I"
        d, o = parse_entries(args[2:])
        if d and d != dict(default_environment()): return "!defaults-differ"
        if args[1] == "N": return _ev_none(m)
        return ev(m, o)
    if cmd == "k.str":
        m = mk(args[0])
        return "I" if m is None else "S" + str(m)
    if cmd == "k.eq":
        a, b = mk(args[0]), mk(args[1])
        if a is None or b is None: return "I"
        eq = a == b
        if eq != (b == a): return "!asymmetric"
        if (a != b) == eq: return "!ne-disagrees"
        if eq and hash(a) != hash(b): return "!equal-but-hash-differs"
        return "T" if eq else "F"

    # ---------------- laws evaluated directly on the implementation ----------------
    if cmd == "law.k.roundtrip":
        m = mk(args[0])
        if m is None: return "ok"
        if "\\" in args[0]: return "ok"      # the backslash is not a PEP 508 string character: literals holding one are outside C09
        t = str(m)
        if str(m) != t: return "str() not stable"
        m2 = mk(t)
        if m2 is None: return "str(m) does not parse: %r" % t
        if str(m2) != t: return "str not idempotent: %r -> %r" % (t, str(m2))
        if not (m2 == m) or m2 != m: return "reparsed marker unequal: %r" % t
        if hash(m2) != hash(m): return "reparsed marker hashes differently"
        for e in args[1:]:
            env = json.loads(e)
            a, b = ev(m, dict(env)), ev(m2, dict(env))
            if a != b: return "str(m) evaluates differently: %r: %s vs %s under %r" % (t, a, b, env)
        return "ok"
    if cmd == "law.k.variants":
        a, b = mk(args[0]), mk(args[1])
        if a is None or b is None: return "a variant of a well-formed marker is rejected: %r %r" % (args[0], args[1])
        if str(a) != str(b): return "variants print differently: %r vs %r" % (str(a), str(b))
        if not (a == b) or a != b: return "variants unequal"
        if hash(a) != hash(b): return "variants hash differently"
        if len({a, b}) != 1: return "variants do not collapse in a set"
        for e in args[2:]:
            env = json.loads(e)
            x, y = ev(a, dict(env)), ev(b, dict(env))
            if x != y: return "variants evaluate differently: %s vs %s under %r" % (x, y, env)
        return "ok"
    if cmd == "law.k.distinct":
        # texts of formulas with different structure must not be conflated by ==
        a, b = mk(args[0]), mk(args[1])
        if a is None or b is None: return "rejected"
        if (a == b) != (str(a) == str(b)): return "== is not equality of str"
        if a == b and hash(a) != hash(b): return "equal but hashes differ"
        return "ok"
    if cmd == "law.k.env":
        # environment rules: overrides win, the rest is default_environment(), extra defaults to "", None reads as ""
        m = mk(args[0])
        if m is None: return "ok"
        part = json.loads(args[1])
        before = dict(part)
        r1 = ev(m, part)
        if part != before: return "evaluate() changed the mapping it was given"
        if ev(m, part) != r1: return "evaluate() is not a function of its arguments"
        full = dict(default_environment()); full["extra"] = ""; full.update(part)
        if full.get("extra") is None: full["extra"] = ""
        r2 = ev(m, full)
        if r1 != r2: return "partial mapping %r: %s, but %s with every key spelled out" % (part, r1, r2)
        if "extra" in part and part["extra"] is None:
            p2 = dict(part); p2["extra"] = ""
            if ev(m, p2) != r1: return "extra=None differs from extra=''"
        if not part:
            if _ev_none(m) != r1: return "evaluate() differs from evaluate({})"
        pfv = full["python_full_version"]
        if pfv.endswith("+"):
            p3 = dict(full); p3["python_full_version"] = pfv + "local"
            if ev(m, p3) != r1: return "python_full_version %r not read as %r" % (pfv, pfv + "local")
        return "ok"
    if cmd == "law.k.req":
        m = mk(args[0])
        try: r = Requirement("pkg ; " + args[0])
        except InvalidRequirement: r = None
        if m is None: return "ok" if r is None else "Requirement accepts a marker that Marker rejects"
        if r is None: return "Requirement rejects a marker that Marker accepts"
        if r.marker is None: return "marker lost"
        if str(r.marker) != str(m): return "Requirement(...).marker prints %r, Marker prints %r" % (str(r.marker), str(m))
        if not (r.marker == m) or hash(r.marker) != hash(m): return "Requirement(...).marker unequal to the stand-alone Marker"
        return "ok"
    if cmd == "law.k.literaleval":
        # the oracle boundary of the model: ast.literal_eval on a quoted token without backslash is the identity on its body,
        # except that NUL, LF and CR make it fail; checked per code point, both quotes
        import ast
        lo, hi = int(args[0]), int(args[1])
        for c in range(lo, hi):
            if 0xD800 <= c <= 0xDFFF or c == 92: continue
            ch = chr(c)
            for q in "'\"":
                if ch == q: continue
                try: v = ast.literal_eval(q + "a" + ch + "b" + q)
                except (SyntaxError, ValueError): v = None
                want = None if c in (0, 10, 13) else "a" + ch + "b"
                if v != want: return "literal_eval on U+%04X with %s: %r" % (c, q, v)
        return "ok"
    raise KeyError(cmd)


def _ev_none(m):
    try: return "T" if m.evaluate() else "F"
    except UndefinedComparison: return "U"
