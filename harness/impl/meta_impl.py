"""Implementation-side observations of the metadata domain (C17).  Public API only:
Metadata.from_raw / Metadata.from_email / attribute reads / parse_email, and the component parsers used as oracles."""
import copy, email.message, json, pathlib, random
from packaging.metadata import Metadata, InvalidMetadata, ExceptionGroup, parse_email
from packaging.version import Version
from packaging.specifiers import SpecifierSet, InvalidSpecifier
from packaging.requirements import Requirement, InvalidRequirement
from packaging.licenses import canonicalize_license_expression

# the core-metadata specification table (independent of the working tree; used by the direct law cases only)
VERS = ["1.0", "1.1", "1.2", "2.1", "2.2", "2.3", "2.4"]
SPEC_ADDED = dict(
    metadata_version="1.0", name="1.0", version="1.0", platforms="1.0", summary="1.0", description="1.0", keywords="1.0",
    home_page="1.0", author="1.0", author_email="1.0", license="1.0", supported_platforms="1.1", download_url="1.1", classifiers="1.1",
    requires="1.1", provides="1.1", obsoletes="1.1", maintainer="1.2", maintainer_email="1.2", requires_dist="1.2", provides_dist="1.2",
    obsoletes_dist="1.2", requires_python="1.2", requires_external="1.2", project_urls="1.2", description_content_type="2.1",
    provides_extra="2.1", dynamic="2.2", license_expression="2.4", license_files="2.4")
SPEC_EMAIL = {k: k.replace("_", "-") for k in SPEC_ADDED}
SPEC_EMAIL.update(platforms="platform", supported_platforms="supported-platform", classifiers="classifier", project_urls="project-url",
                  license_files="license-file")


def show_s(s):
    return '"' + ".".join(str(ord(c)) for c in s) + '"'


def render(v):
    if v is None: return "N"
    if isinstance(v, str): return show_s(v)
    if isinstance(v, (Version, SpecifierSet, Requirement)): return show_s(str(v))
    if isinstance(v, list): return "[" + ",".join(show_s(x if isinstance(x, str) else str(x)) for x in v) + "]"
    if isinstance(v, dict): return "{" + ",".join(show_s(k) + ":" + show_s(x) for k, x in v.items()) + "}"
    return "?" + type(v).__name__


def decode_tokens(toks):
    """-> (dict in token order, unparsed keys, reads, source document or None)"""
    data, unparsed, reads, doc = {}, [], [], None
    cur, label = None, None
    for t in toks:
        tag, body = t[:1], t[1:]
        if tag == "K": cur = body; data[cur] = ""
        elif tag == "S": data[cur] = body
        elif tag == "L": data[cur] = []
        elif tag == "I": data[cur].append(body)
        elif tag == "D": data[cur] = {}
        elif tag == "P": label = body
        elif tag == "Q": data[cur][label] = body
        elif tag == "U": unparsed.append(body)
        elif tag == "R": reads.append(body)
        elif tag == "X": doc = body
        elif tag == "B": doc = body.encode("latin-1")
    return data, unparsed, reads, doc


def encode_value(k, v):
    out = ["K" + k]
    if isinstance(v, str): out.append("S" + v)
    elif isinstance(v, list): out += ["L"] + ["I" + x for x in v]
    elif isinstance(v, dict):
        out.append("D")
        for a, b in v.items(): out += ["P" + a, "Q" + b]
    else: raise TypeError(type(v).__name__)
    return out


def group_obs(g):
    if not all(isinstance(e, InvalidMetadata) for e in g.exceptions): return "G!:member that is not InvalidMetadata"
    return "G:" + ",".join(sorted(e.field for e in g.exceptions))


def read_all(m, reads):
    """One token per attribute read.  A name that is not a metadata field must raise AttributeError (the harness only reads fields and
    names that are no attribute of the class at all); anything else escapes to the runner (!EXC:<class> for the whole case)."""
    out = []
    for f in reads:
        try: out.append(render(getattr(m, f)))
        except InvalidMetadata as e: out.append("E:" + e.field)
        except AttributeError:
            if f in SPEC_ADDED: raise
            out.append("!EXC:AttributeError")
    return out


def oracle(comp, s):
    """verdict of one component on one string: [] = its documented exception, ["v"+str(result), ...] = accepted,
    ["x"+class] = it raised something else (three-valued oracle of MetaModel3.v)"""
    try:
        return oracle2(comp, s)
    except RecursionError:
        return ["xRecursionError"]
    except Exception as e:
        return ["x" + type(e).__name__]


def oracle2(comp, s):
    if comp == "0":
        try: return ["v" + str(SpecifierSet(s))]
        except InvalidSpecifier: return []
    if comp == "1":
        try: return ["v" + str(Requirement(s))]
        except InvalidRequirement: return []
    if comp == "2":
        try: return ["v" + canonicalize_license_expression(s)]
        except ValueError: return []
    if comp == "3":
        m = email.message.EmailMessage()
        try: m["content-type"] = s
        except (ValueError, IndexError): return []                     # line breaks; malformed RFC 2231 parameters ("a*")
        params = m["content-type"].params
        out = ["v" + m.get_content_type()]
        if "charset" in params: out.append("c" + params["charset"])
        if "variant" in params: out.append("w" + params["variant"])
        return out
    if comp == "4":
        bad = pathlib.PurePosixPath(s).is_absolute() or pathlib.PureWindowsPath(s).is_absolute() or pathlib.PureWindowsPath(s).as_posix() != s
        return [] if bad else ["v"]
    raise KeyError(comp)


def errors_of(data, validate_reads=None):
    try:
        Metadata.from_raw(data)
        return []
    except ExceptionGroup as g:
        return sorted(e.field for e in g.exceptions)


def observe(cmd, args):
    if cmd == "m.oracle":
        return json.dumps(oracle(args[0], args[1]))
    if cmd == "m.parse_email":
        doc = args[1] if args[0] == "s" else args[1].encode("latin-1")
        raw, unparsed = parse_email(doc)
        toks = []
        for k, v in raw.items(): toks += encode_value(k, v)
        toks += ["U" + k for k in unparsed]
        return json.dumps(toks)
    if cmd in ("m.from_raw", "m.from_email", "m.from_email_doc", "m.from_raw_models"):
        validate = args[0] == "T"
        data, unparsed, reads, doc = decode_tokens(args[1:])
        before = copy.deepcopy(data)
        try:
            m = Metadata.from_raw(data, validate=validate) if cmd in ("m.from_raw", "m.from_raw_models") else Metadata.from_email(doc, validate=validate)
        except ExceptionGroup as g:
            obs = group_obs(g)
        else:
            obs = "|".join(["OK"] + read_all(m, reads))
        if data != before: obs += "|CALLER-DICT-MODIFIED"
        return obs
    if cmd == "m.heap":
        # from_raw(validate=False) on the caller's dict, then attribute reads interleaved with in-place changes made by the caller (to
        # its dict and to the list objects in it) and by the holder of returned lists; finally the caller's dict as it is then
        data, _, _, _ = decode_tokens([t for t in args[1:] if t[:1] in "KSLIDPQ"])
        try:
            m = Metadata.from_raw(data, validate=args[0] == "T")
        except ExceptionGroup as g:
            return group_obs(g)
        out, last = ["OK"], {}
        for t in args[1:]:
            tag, body = t[:1], t[1:]
            if tag not in "Radmhug": continue
            key, *items = body.split("\x1f")
            if tag == "R":
                try:
                    v = getattr(m, body); last[body] = v; out.append(render(v))
                except InvalidMetadata as e: out.append("E:" + e.field)
                except AttributeError:
                    if body in SPEC_ADDED: raise
                    out.append("!EXC:AttributeError")
            elif tag == "a": data[key] = list(items)
            elif tag == "d": data.pop(key, None)
            elif tag == "m":
                if isinstance(data.get(key), list): data[key][:] = items
            elif tag == "h":
                if isinstance(last.get(key), list): last[key][:] = items
            elif tag in "ug":
                obj = data.get(key) if tag == "u" else last.get(key)
                if isinstance(obj, dict):
                    obj.clear(); obj.update(zip(items[0::2], items[1::2]))
        return "|".join(out) + "#" + ";".join(show_s(k) + "=" + render(v) for k, v in data.items())
    # ------------------------------------------------------------------ direct laws on the implementation
    if cmd == "law.m.gating":
        # core-metadata spec table: a field with a valid value is accepted under version mv iff it was introduced at or before mv
        f, mv, val = args[0], args[1], json.loads(args[2])
        d = {"metadata_version": mv, "name": "n", "version": "1", f: val}
        errs = errors_of(d)
        want = [] if VERS.index(SPEC_ADDED[f]) <= VERS.index(mv) else [SPEC_EMAIL[f]]
        return "ok" if errs == want else "field %s under metadata version %s: errors %r, core-metadata table says %r" % (f, mv, errs, want)
    if cmd == "law.m.versions":
        mv = args[0]
        errs = errors_of({"metadata_version": mv, "name": "n", "version": "1"})
        want = [] if mv in VERS else ["metadata-version"]
        return "ok" if errs == want else "metadata version %r: errors %r, expected %r" % (mv, errs, want)
    if cmd == "law.m.history":
        # reading attributes in any order any number of times gives the same values; lazy errors = eager errors; caller's dict untouched
        seed = int(args[0])
        data, _, _, _ = decode_tokens(args[1:])
        before = copy.deepcopy(data)
        fields = sorted(set(SPEC_ADDED) | {k for k in data if k in SPEC_ADDED})
        rng = random.Random(seed)
        ref = {}
        for f in fields:                                   # one fresh instance per field, one read: the reference value
            m = Metadata.from_raw(data, validate=False)
            try: ref[f] = render(getattr(m, f))
            except InvalidMetadata as e: ref[f] = "E:" + e.field
        for trial in range(3):
            m = Metadata.from_raw(data, validate=False)
            seq = [rng.choice(fields) for _ in range(rng.choice([3, 10, 40]))] + fields
            rng.shuffle(seq)
            last = {}
            for f in seq:
                try: v = getattr(m, f); o = render(v)
                except InvalidMetadata as e: v = None; o = "E:" + e.field
                if o != ref[f]: return "read of %s after %d other reads gives %s, a fresh instance gives %s" % (f, len(last), o, ref[f])
                if f in last and last[f] is not v and not o.startswith("E:"): return "second read of %s returns a different object" % f
                last[f] = v
            if data != before: return "caller's dict modified by attribute reads"
        # eager: the group names exactly the lazily failing fields + unknown keys + fields newer than the declared version
        eager = errors_of(data)
        if data != before: return "caller's dict modified by from_raw(validate=True)"
        lazy = sorted(v[2:] for f, v in ref.items() if v.startswith("E:") and (f in data or f in ("metadata_version", "name", "version")))
        mv = data.get("metadata_version")
        gated = sorted(SPEC_EMAIL[k] for k in data if k in SPEC_ADDED and mv in VERS and VERS.index(SPEC_ADDED[k]) > VERS.index(mv))
        unknown = sorted(k for k in data if k not in SPEC_ADDED)
        lazy_ungated = [x for x in lazy if x not in gated]
        want = sorted(lazy_ungated + gated + unknown)
        if eager != want: return "validate=True names %r; lazy errors %r + newer fields %r + unknown keys %r" % (eager, lazy_ungated, gated, unknown)
        # an accepted dict stays readable without error, and the enriched required fields are the component parsers' results
        if not eager:
            m = Metadata.from_raw(data)
            if str(m.version) != str(Version(data["version"])) or m.name != data["name"] or m.metadata_version != data["metadata_version"]:
                return "enriched required field differs from the component parser's result"
        return "ok"
    if cmd == "law.m.lower_table":
        # the model's str.lower table: outside ASCII only U+212A and U+0130 lower-case to something containing an ASCII character
        bad = [c for c in range(128, 0x110000) if not (0xD800 <= c < 0xE000) and any(ord(x) < 128 for x in chr(c).lower()) and c not in (0x212A, 0x130)]
        if bad: return "code points lower-casing into ASCII: %r" % bad[:5]
        if chr(0x212A).lower() != "k" or chr(0x130).lower() != "i̇": return "special lower-case mappings changed"
        if any(chr(c).lower() != (chr(c + 32) if 65 <= c <= 90 else chr(c)) for c in range(128)): return "ASCII lower differs"
        return "ok"
    raise KeyError(cmd)
