"""C20: determinism / history independence / inputs untouched.  Every observation is a canonical text of the result; each call is made twice
and on deep copies of its arguments, which are compared afterwards."""
import copy, json, random
from packaging.version import Version, InvalidVersion
from packaging.specifiers import Specifier, SpecifierSet, InvalidSpecifier
from packaging.markers import Marker, InvalidMarker, UndefinedComparison
from packaging.requirements import Requirement, InvalidRequirement
from packaging.tags import Tag, parse_tag
from packaging.utils import canonicalize_name, canonicalize_version, parse_wheel_filename, InvalidWheelFilename
from packaging.metadata import Metadata, parse_email, ExceptionGroup, InvalidMetadata

def canon(x):
    if isinstance(x, (frozenset, set)): return "{" + ",".join(sorted(canon(i) for i in x)) + "}"
    if isinstance(x, (list, tuple)): return "[" + ",".join(canon(i) for i in x) + "]"
    if isinstance(x, dict): return "{" + ",".join(sorted(canon(k) + ":" + canon(v) for k, v in x.items())) + "}"
    if isinstance(x, (Version, Specifier, SpecifierSet, Marker, Requirement, Tag)): return type(x).__name__ + "(" + str(x) + ")#" + ("h" if hash(x) == hash(copy.deepcopy(x)) else "H!")
    if isinstance(x, bytes): return "b" + repr(x)
    return repr(x)

def state(o):
    """value + hash of an object that must not change across reads"""
    if isinstance(o, (Version, Specifier, SpecifierSet, Marker, Requirement, Tag)): return (str(o), hash(o), repr(o))
    return copy.deepcopy(o)

def guarded(f, *args):
    """call f twice on the same arguments; arguments must be unchanged afterwards, both results equal"""
    before = [state(a) for a in args]
    try: r1 = canon(f(*args))
    except (InvalidVersion, InvalidSpecifier, InvalidMarker, InvalidRequirement, InvalidWheelFilename, UndefinedComparison) as e: r1 = "E:" + type(e).__name__
    mid = [state(a) for a in args]
    try: r2 = canon(f(*args))
    except (InvalidVersion, InvalidSpecifier, InvalidMarker, InvalidRequirement, InvalidWheelFilename, UndefinedComparison) as e: r2 = "E:" + type(e).__name__
    after = [state(a) for a in args]
    if before != mid or before != after: return "MUTATED-ARGUMENT " + r1
    if r1 != r2: return "REPEAT-DIFFERS %s / %s" % (r1, r2)
    return r1

def mkitems(items):
    return [Version(i[1:]) if i.startswith("V") else i[1:] for i in items]

def observe(cmd, args):
    if cmd == "det.set":            # SpecifierSet(text): str, len, sorted members, contains, filter (items: "S<text>" str or "V<text>" Version objects)
        text, items = args[0], mkitems(args[1:])
        def f(t, its):
            ss = SpecifierSet(t)
            out = [str(ss), len(ss), [str(s) for s in ss], ss.prereleases]      # members in iteration order: it must not depend on the hash seed
            for it in its:
                try: out.append(ss.contains(it))
                except InvalidVersion: out.append("EV")
            try: out.append([(type(x).__name__, str(x)) for x in ss.filter(its)])
            except InvalidVersion: out.append("EV")
            out.append(str(ss)); out.append(hash(ss) == hash(SpecifierSet(t)))
            return out
        return guarded(f, text, items)
    if cmd == "det.spec":
        text, items = args[0], mkitems(args[1:])
        def f(t, its):
            sp = Specifier(t)
            out = [str(sp), sp.prereleases]
            for it in its:
                try: out.append(sp.contains(it))
                except InvalidVersion: out.append("EV")
            try: out.append([(type(x).__name__, str(x)) for x in sp.filter(its)])
            except InvalidVersion: out.append("EV")
            return out
        return guarded(f, text, items)
    if cmd == "det.req":
        def f(t):
            r = Requirement(t)
            return [str(r), r.name, sorted(r.extras), str(r.specifier), r.url, str(r.marker) if r.marker else None, str(r), hash(r) == hash(Requirement(t))]
        return guarded(f, args[0])
    if cmd == "det.marker":
        env = json.loads(args[1])
        def f(t, e):
            m = Marker(t)
            return [str(m), m.evaluate(e), str(m), m.evaluate(e), hash(m) == hash(Marker(t))]
        return guarded(f, args[0], env)
    if cmd == "det.marker.multi":   # one Marker object evaluated under several environments in sequence; each answer must equal a fresh object's
        envs = json.loads(args[1])
        try: m = Marker(args[0])
        except InvalidMarker: return "E"
        s0, h0 = str(m), hash(m)
        out = []
        for e in envs + envs[::-1]:
            try: r = m.evaluate(dict(e))
            except UndefinedComparison: r = "UC"
            try: fresh = Marker(args[0]).evaluate(dict(e))
            except UndefinedComparison: fresh = "UC"
            if r != fresh: return "HISTORY-DEPENDENT evaluate: %r on the shared object, %r on a fresh one" % (r, fresh)
            out.append(r)
        if str(m) != s0 or hash(m) != h0: return "OBJECT-CHANGED"
        return canon(out)
    if cmd == "det.tags":
        def f(t): return [sorted(str(x) for x in parse_tag(t)), len(parse_tag(t))]
        return guarded(f, args[0])
    if cmd == "det.wheel":
        def f(t):
            n, v, b, tags = parse_wheel_filename(t)
            return [n, str(v), b, sorted(str(x) for x in tags)]
        return guarded(f, args[0])
    if cmd == "det.sorted":
        def f(its): return [str(v) for v in sorted(Version(i) for i in its)]
        return guarded(f, list(args))
    if cmd == "det.meta":           # raw dict (JSON) + read order
        raw = json.loads(args[0]); order = json.loads(args[1])
        def f(d, reads):
            try: m = Metadata.from_raw(d, validate=False)
            except ExceptionGroup as e: return ["G", sorted(x.field for x in e.exceptions)]
            out = {}
            for fld in reads + reads:
                try: v = getattr(m, fld)
                except InvalidMetadata as e: v = "IM:" + e.field
                out.setdefault(fld, set()).add(canon(v))
            bad = [k for k, v in out.items() if len(v) > 1]
            if bad: return "REPEAT-DIFFERS-WITHIN " + canon({k: sorted(out[k]) for k in bad})
            return {k: sorted(v) for k, v in out.items()}
        r = guarded(f, raw, order)
        return "REPEAT-DIFFERS " + r if "REPEAT-DIFFERS-WITHIN" in r else r
    if cmd == "det.meta.validate":  # raw dict (JSON): validated construction; the error group's members in the order they are reported
        raw = json.loads(args[0])
        def f(d):
            try: m = Metadata.from_raw(d)
            except ExceptionGroup as e: return ["G", [x.field for x in e.exceptions if isinstance(x, InvalidMetadata)], len(e.exceptions)]
            return ["OK", str(m.name), str(m.version)]
        return guarded(f, raw)
    if cmd == "det.email":
        def f(t): return list(parse_email(t))
        return guarded(f, args[0] if args[1] == "s" else args[0].encode("latin-1"))
    if cmd == "det.fn":             # plain functions of one string: result or documented exception class
        import packaging.utils as U
        from packaging.licenses import canonicalize_license_expression, InvalidLicenseExpression
        name, arg = args
        fns = {"license": lambda t: canonicalize_license_expression(t), "name": lambda t: U.canonicalize_name(t), "name.validate": lambda t: U.canonicalize_name(t, validate=True),
               "is_normalized": lambda t: U.is_normalized_name(t), "canon_version": lambda t: U.canonicalize_version(t), "canon_version.nostrip": lambda t: U.canonicalize_version(t, strip_trailing_zero=False),
               "sdist": lambda t: [str(x) for x in U.parse_sdist_filename(t)], "version": lambda t: str(Version(t)), "specifier": lambda t: str(Specifier(t))}
        def f(t):
            try: return fns[name](t)
            except (InvalidLicenseExpression, U.InvalidName, U.InvalidSdistFilename) as e: return "E:" + type(e).__name__
        return guarded(f, arg)
    if cmd == "det.shared":         # one SpecifierSet object, a sequence of operations in the given order; result = per-operation answers, sorted by op
        text, ops = args[0], json.loads(args[1])
        try: ss = SpecifierSet(text)
        except InvalidSpecifier: return "E"
        res = {}
        h0, s0 = hash(ss), str(ss)
        for op in ops:
            try:
                if op[0] == "contains": r = ss.contains(op[1])
                elif op[0] == "filter": r = [str(x) for x in ss.filter(op[1])]
                elif op[0] == "str": r = str(ss)
                elif op[0] == "hash": r = hash(ss) == h0
                elif op[0] == "len": r = len(ss)
                elif op[0] == "iter": r = sorted(str(s) for s in ss)
                elif op[0] == "and": r = str(ss & SpecifierSet(op[1]))
                elif op[0] == "pre": r = ss.prereleases
            except InvalidVersion: r = "EV"
            except ValueError: r = "VE"
            res.setdefault(json.dumps(op), set()).add(canon(r))
        if hash(ss) != h0 or str(ss) != s0: return "OBJECT-CHANGED"
        return canon({k: sorted(v) for k, v in res.items()})
    if cmd == "det.shared.spec":    # one Specifier object, a sequence of operations in the given order
        text, ops = args[0], json.loads(args[1])
        try: sp = Specifier(text)
        except InvalidSpecifier: return "E"
        res = {}
        h0, s0 = hash(sp), str(sp)
        for op in ops:
            try:
                if op[0] == "contains": r = sp.contains(op[1])
                elif op[0] == "in": r = op[1] in sp
                elif op[0] == "filter": r = [str(x) for x in sp.filter(op[1])]
                elif op[0] == "str": r = str(sp)
                elif op[0] == "hash": r = hash(sp) == h0
                elif op[0] == "pre": r = sp.prereleases
                elif op[0] == "eq": r = sp == Specifier(text)
            except InvalidVersion: r = "EV"
            res.setdefault(json.dumps(op), set()).add(canon(r))
        if hash(sp) != h0 or str(sp) != s0: return "OBJECT-CHANGED"
        return canon({k: sorted(v) for k, v in res.items()})
    if cmd == "law.det.fresh":      # editing the public mutable parts of one object must not change another object or a later construction
        ta, tb = args
        try: b0 = Requirement(tb); a = Requirement(ta)
        except InvalidRequirement: return "ok"
        snap = lambda r: (str(r), hash(r), sorted(r.extras), r.url, str(r.specifier), str(r.marker))
        s0 = snap(b0)
        try: a.extras.add("zz-injected"); a.extras.add("zz-2")
        except AttributeError: return "ok"          # an immutable extras value cannot be edited: nothing to check
        try:
            if snap(b0) != s0: return "editing the extras of Requirement(%r) changed another Requirement object: %r -> %r" % (ta, s0[0], str(b0))
            if snap(Requirement(tb)) != s0: return "editing the extras of Requirement(%r) changed what %r parses to afterwards: %r" % (ta, tb, str(Requirement(tb)))
        finally:
            a.extras.discard("zz-injected"); a.extras.discard("zz-2")
        return "ok"
    if cmd == "law.det.perm":       # order-insensitive inputs: two supply orders must give the same observable value
        kind, seed, items = args[0], int(args[1]), list(args[2:])
        r = random.Random(seed); p = items[:]; r.shuffle(p)
        try:
            if kind in ("set", "and", "req-clauses") and len(args) != 4:
                # clauses that are == as specifiers but spelled differently collapse to the first supplied (finding D33, probed by the fixed
                # four-argument cases): everything else - same operator with different versions included - must not depend on supply order
                sp = [Specifier(x) for x in items]
                if len({str(x) for x in sp}) != len(set(sp)): return "ok"
            if kind == "set":
                a, c = SpecifierSet(",".join(items)), SpecifierSet(",".join(p))
                obs = lambda s: (str(s), hash(s), len(s), sorted(map(str, s)), [s.contains(x) for x in ("1.0", "1.0.0", "2.0a1", "0.5", "1.5+x")], [str(x) for x in s.filter(["1.0", "2.0a1", "0.5", "3.0"])])
            elif kind == "and":
                a, c = SpecifierSet(items[0]) & SpecifierSet(",".join(items[1:])), SpecifierSet(",".join(items[1:])) & SpecifierSet(items[0])
                obs = lambda s: (str(s), hash(s), len(s))
            elif kind == "req-extras":
                a, c = Requirement("foo[" + ",".join(items) + "]"), Requirement("foo[" + ",".join(p) + "]")
                obs = lambda s: (str(s), hash(s), sorted(s.extras))
            elif kind == "req-clauses":
                a, c = Requirement("foo " + ",".join(items)), Requirement("foo " + ",".join(p))
                obs = lambda s: (str(s), hash(s), str(s.specifier))
            elif kind in ("set-objects", "and-objects"):
                # members are Specifier objects carrying their own pre-release setting: "<T|F|N><clause>"
                TRI = {"T": True, "F": False, "N": None}
                mk = lambda lst: [Specifier(x[1:], prereleases=TRI[x[0]]) for x in lst]
                if kind == "set-objects": a, c = SpecifierSet(mk(items)), SpecifierSet(mk(p))
                else: a, c = SpecifierSet(mk(items[:1])) & SpecifierSet(mk(items[1:])), SpecifierSet(mk(items[1:])) & SpecifierSet(mk(items[:1]))
                cands = ["1.0", "2.0a1", "0.5", "3.0", "1.0.dev1", "2.0"]
                obs = lambda s: (str(s), hash(s), len(s), s.prereleases, [s.contains(x) for x in cands], [s.contains(x, prereleases=True) for x in cands], [str(x) for x in s.filter(cands)])
            elif kind == "tags":
                a, c = parse_tag("-".join(".".join(x.split("+")) for x in items)), None
                its2 = [".".join(r.sample(x.split("+"), len(x.split("+")))) for x in items]
                c = parse_tag("-".join(its2))
                obs = lambda s: (sorted(map(str, s)), len(s))
            else: return "ok"
        except (InvalidSpecifier, InvalidRequirement, ValueError): return "ok"
        if a != c: return "%s: results for two supply orders are unequal: %r vs %r" % (kind, items, p)
        if obs(a) != obs(c): return "%s: observable value depends on supply order: %r -> %r / %r" % (kind, items, obs(a)[0], obs(c)[0])
        return "ok"
    raise KeyError(cmd)
