"""Implementation-side observations of the interpreter-tag domain (C15).

The real generators are driven through their public signatures with explicit arguments; the interpreter configuration that
the default arguments read is steered only through the standard library (sysconfig.get_config_var, sys.version_info,
sys.implementation, sys.maxunicode, sys.gettotalrefcount, the importlib.machinery.EXTENSION_SUFFIXES list object,
platform.system, sysconfig.get_platform).  No private name of `packaging` is assigned to."""
import contextlib, importlib.machinery, platform, re, sys, sysconfig, types
from packaging import tags

_MISSING = object()


@contextlib.contextmanager
def patched(obj, name, value):
    old = getattr(obj, name, _MISSING)
    if value is _MISSING:
        if old is not _MISSING: delattr(obj, name)
    else:
        setattr(obj, name, value)
    try:
        yield
    finally:
        if old is _MISSING:
            if hasattr(obj, name): delattr(obj, name)
        else:
            setattr(obj, name, old)


def plist(s):
    """list argument: every item is preceded by ','"""
    return s.split(",")[1:]


def pv(s):
    return tuple(int(x) for x in s.split("."))


def optn(s):
    return None if s == "N" else int(s)


def opts(s):
    return s[1:] if s[:1] == "S" else None


def optnd(s):
    """py_version_nodot: 'N' = None, 'S<text>' = str, 'I<digits>' = int (sysconfig may report either)"""
    return int(s[1:]) if s[:1] == "I" else opts(s)


def show(it):
    return ",".join(str(t) for t in it)


@contextlib.contextmanager
def interpreter(cfg, sysver=None, name=None, nodot=_MISSING, ext=_MISSING, system=None, plat=None, mac_ver=None):
    """cfg = 'd,g,p,u,r,e,w' (Py_DEBUG, Py_GIL_DISABLED, WITH_PYMALLOC, Py_UNICODE_SIZE, gettotalrefcount?, _d.pyd?, wide?)"""
    d, g, p, u, r, e, w = cfg.split(",")
    table = {"Py_DEBUG": optn(d), "Py_GIL_DISABLED": optn(g), "WITH_PYMALLOC": optn(p), "Py_UNICODE_SIZE": optn(u)}
    if nodot is not _MISSING: table["py_version_nodot"] = nodot
    if ext is not _MISSING: table["EXT_SUFFIX"] = ext
    real = sysconfig.get_config_var

    def get_config_var(n):
        return table[n] if n in table else real(n)

    sufs = importlib.machinery.EXTENSION_SUFFIXES
    assert tags.EXTENSION_SUFFIXES is sufs          # read only: the module shares the stdlib list object
    saved = list(sufs)
    with contextlib.ExitStack() as st:
        st.enter_context(patched(sysconfig, "get_config_var", get_config_var))
        st.enter_context(patched(sys, "gettotalrefcount", (lambda: 0) if r == "T" else _MISSING))
        st.enter_context(patched(sys, "maxunicode", 0x10FFFF if w == "T" else 0xFFFF))
        if sysver is not None:
            st.enter_context(patched(sys, "version_info", tuple(sysver) + (0, "final", 0)))
        if name is not None:
            st.enter_context(patched(sys, "implementation", types.SimpleNamespace(name=name, _multiarch="x86_64-linux-gnu")))
        if system is not None:
            st.enter_context(patched(platform, "system", lambda: system))
            st.enter_context(patched(sysconfig, "get_platform", lambda: plat))
        if mac_ver is not None:
            st.enter_context(patched(platform, "mac_ver", lambda: (mac_ver[0], ("", "", ""), mac_ver[1])))
        sufs[:] = [x for x in saved if x != "_d.pyd"] + (["_d.pyd"] if e == "T" else [])
        try:
            yield
        finally:
            sufs[:] = saved


def feed(lst, salt):
    """the parameters are documented as Iterable[str]: the kind handed over (list, one-shot iterator, generator, tuple) is a function
    of the case text, the answer must not depend on it"""
    sel = (sum(len(x) for x in lst) + len(lst) + salt) % 4
    return [lst, iter(lst), (x for x in lst), tuple(lst)][sel]


CFG0 = "N,N,N,N,F,F,T"


def det_kw(det):
    """detected platforms: 'G<get_platform>' (generic system) | 'D<mac release>;<cpu>' (Darwin)"""
    if det[:1] == "D":
        ver, cpu = det[1:].split(";")
        return dict(system="Darwin", plat="macosx-10.9-universal2", mac_ver=(ver, cpu))
    return dict(system="Generic", plat=det[1:])


def opt_pv(v, salt):
    """python_version: '' = not given (None or the empty tuple - both are falsy)"""
    if v: return pv(v)
    return None if salt % 2 else ()


def opt_ps(ps, salt):
    """platforms: '' = no platform given (None or an empty list - both are falsy; an empty *iterator* would be truthy)"""
    if plist(ps): return feed(plist(ps), 1)
    return None if salt % 2 else []


def law_sys(name, nodot, sysver, ext, cfg, spec):
    """list(sys_tags()) is the concatenation of the interpreter-specific and the compatible sequence, each over the whole detected
    platform list in its order; no Tag repeated (outside the documented class: an interpreter named like a py* tag)"""
    kind, rest = spec[:1], spec[1:]
    with contextlib.ExitStack() as st:
        if kind == "L":
            import plat_impl                       # lazily: plat_impl imports this module
            glibc, arch = rest.split(";")
            st.enter_context(plat_impl.linux_env("Sglibc " + glibc, "I", "X", "-"))
            st.enter_context(interpreter(cfg, sysver=pv(sysver), name=name, nodot=optnd(nodot), ext=opts(ext), system="Linux", plat="linux-" + arch))
        else:
            st.enter_context(interpreter(cfg, sysver=pv(sysver), name=name, nodot=optnd(nodot), ext=opts(ext), **det_kw(spec)))
        plats = list(tags.platform_tags())
        try:
            whole = list(tags.sys_tags())
        except (SystemError, IndexError) as e:          # IndexError: EXT_SUFFIX forms like ".cpython.so" (GCrash in the model)
            try:
                list(tags.generic_tags())
            except type(e):
                return "ok"
            return "sys_tags raised %s but generic_tags() does not" % type(e).__name__
        short = tags.interpreter_name()
        if short == "cp":
            first = list(tags.cpython_tags())
            interp = "cp" + tags.interpreter_version()
        else:
            first = list(tags.generic_tags())
            interp = "pp3" if short == "pp" else None
        second = list(tags.compatible_tags(interpreter=interp))
        own = short + tags.interpreter_version()
    if whole != first + second: return "sys_tags() is not the interpreter-specific sequence followed by the compatible sequence"
    n = len(plats)
    if n == 0: return "ok" if all(t.platform == "any" for t in whole) else "tags for a platform although none was detected"
    nrange = (len(second) - (1 if interp else 0)) // (n + 1)
    body = first + second[:nrange * n]
    if len(first) % n: return "interpreter-specific part is not a whole number of platform lists"
    for k in range(0, len(body), n):
        blk = body[k:k + n]
        if [t.platform for t in blk] != [p.lower() for p in plats]: return "a block does not run over the detected platforms in their order"
        if len({(t.interpreter, t.abi) for t in blk}) != 1: return "a block mixes interpreter/abi"
    if [t.platform for t in second[nrange * n:]] != ["any"] * (len(second) - nrange * n): return "the tail of the compatible sequence is not none-any"
    if short != "cp" and any(t.interpreter != own.lower() for t in first): return "generic tags carry a foreign interpreter"
    if short == "cp" and not all(t.interpreter.startswith("cp") for t in first): return "cpython block with a non-cp interpreter"
    v = pv(sysver)
    pyr = ["py%d%d" % v[:2], "py%d" % v[0]] + ["py%d%d" % (v[0], z) for z in range(v[1] - 1, -1, -1)]
    if len(set(plats)) == len(plats) and "any" not in plats and (short == "cp" or own.lower() not in pyr):
        if len(set(whole)) != len(whole): return "sys_tags() repeats a tag"
    return "ok"


def observe(cmd, args):
    if cmd == "t.cpython":
        v, abis, ps, cfg = args
        with interpreter(cfg):
            return show(list(tags.cpython_tags(pv(v), None if abis == "?" else feed(plist(abis), 0), feed(plist(ps), 1) if plist(ps) else plist(ps))))
    if cmd == "t.compat":
        v, interp, ps = args
        return show(tags.compatible_tags(pv(v), interp or None, feed(plist(ps), 1) if plist(ps) else plist(ps)))
    if cmd == "t.generic":
        interp, abis, ps = args
        return show(tags.generic_tags(interp, feed(plist(abis), 0), feed(plist(ps), 1) if plist(ps) else plist(ps)))
    if cmd == "t.gabi":
        ext, cfg, sysver = args
        with interpreter(cfg, sysver=pv(sysver), ext=opts(ext)):
            try:
                return show(list(tags.generic_tags("xx", None, ["p"])))
            except SystemError:
                return "E"
    if cmd == "t.sys":
        name, nodot, sysver, ext, cfg, plat = args
        with interpreter(cfg, sysver=pv(sysver), name=name, nodot=opts(nodot), ext=opts(ext), system="Generic", plat=plat):
            try:
                return show(list(tags.sys_tags()))
            except SystemError:
                return "E"
    if cmd == "t.cpythond":
        v, abis, ps, cfg, sysver, det = args
        with interpreter(cfg, sysver=pv(sysver), **det_kw(det)):
            return show(list(tags.cpython_tags(opt_pv(v, len(ps)), None if abis == "?" else feed(plist(abis), 0), opt_ps(ps, len(v)),
                                               warn=len(det) % 2 == 0)))          # warn only logs: the answer must not depend on it
    if cmd == "t.compatd":
        v, interp, ps, sysver, det = args
        with interpreter(CFG0, sysver=pv(sysver), **det_kw(det)):
            return show(tags.compatible_tags(opt_pv(v, len(ps)), interp or None, opt_ps(ps, len(v))))
    if cmd == "t.genericd":
        interp, abis, ps, name, nodot, sysver, det = args
        with interpreter(CFG0, sysver=pv(sysver), name=name, nodot=optnd(nodot), **det_kw(det)):
            return show(tags.generic_tags(interp or (None if len(abis) % 2 else ""), feed(plist(abis), 0), opt_ps(ps, len(abis)), warn=len(det) % 2 == 1))
    if cmd == "t.sysp":
        name, nodot, sysver, ext, cfg, det = args
        with interpreter(cfg, sysver=pv(sysver), name=name, nodot=optnd(nodot), ext=opts(ext), **det_kw(det)):
            try:
                return show(list(tags.sys_tags(warn=len(det) % 2 == 0)))
            except SystemError:
                return "E"
    if cmd == "law.t.sys":
        return law_sys(*args)
    if cmd == "law.t.shape":
        # clauses of the statement evaluated directly on the implementation (ASCII inputs of any case, no '-' in ABIs/platforms).
        # "no repeats in the inputs" is read on the Tag level: after lower-casing, and no explicit ABI is a differently-cased
        # spelling of abi3/none (C15_nodup_tags_*; C15_case_induced_repeats shows the reading is necessary)
        v, abis, ps, interp = args
        v, abis, ps = pv(v), plist(abis), plist(ps)
        cp = [str(t) for t in tags.cpython_tags(v, abis, ps)]
        co = [str(t) for t in tags.compatible_tags(v, interp or None, ps)]
        ge = [str(t) for t in tags.generic_tags(interp or "xx1", abis, ps)]
        nodup = lambda l: len(set(l)) == len(l)
        labis, lps = [a.lower() for a in abis], [p.lower() for p in ps]
        rest = list(abis)
        for x in ("abi3", "none"):
            if x in rest: rest.remove(x)
        lrest = [a.lower() for a in rest]
        pyr = ["py%d%d" % (v[0], v[1]), "py%d" % v[0]] + ["py%d%d" % (v[0], z) for z in range(v[1] - 1, -1, -1)] if len(v) > 1 else ["py%d" % v[0]]
        if nodup(labis) and nodup(lps):
            if "abi3" not in lrest and "none" not in lrest and not nodup(cp): return "cpython_tags repeats a tag"
            if ("none" in abis or "none" not in labis) and not nodup(ge): return "generic_tags repeats a tag"
        if nodup(lps) and "any" not in lps and (interp or "").lower() not in pyr and not nodup(co): return "compatible_tags repeats a tag"
        nany = (len(co) - (1 if interp else 0)) // (len(ps) + 1)
        for nm, seq in (("cpython_tags", cp), ("compatible_tags", co[:nany * len(ps)]), ("generic_tags", ge)):
            if len(seq) % len(ps): return nm + ": a block is not a whole platform list"
            for k in range(0, len(seq), len(ps)):
                blk = seq[k:k + len(ps)]
                if [t.rsplit("-", 1)[1] for t in blk] != lps: return nm + ": platform order inside a block differs from the caller's"
                if len({t.rsplit("-", 1)[0] for t in blk}) != 1: return nm + ": a block mixes interpreter/abi"
        # the given ABIs come first, in the caller's order, then abi3 (if at all), then none
        want_head = [a.lower() for a in rest]
        got = [cp[k].split("-")[1] for k in range(0, len(cp), len(ps))]
        if got[:len(want_head)] != want_head: return "cpython_tags: the explicit ABIs are not first / not in the caller's order"
        tail = got[len(want_head):]
        if tail[:1] == ["abi3"]:
            if tail[1:2] != ["none"] or any(x != "abi3" for x in tail[2:]): return "cpython_tags: after the ABIs: abi3, none, then only older abi3"
            if len(v) < 2 or v[:2] < (3, 2): return "abi3 offered below 3.2 / for a major-only version"
            if len(tail) - 2 != max(v[1] - 2, 0): return "cpython_tags: older minors are not exactly minor-1 .. 2"
            if rest and re.match(r"cp\d+[^\n]*t", rest[0]): return "abi3 offered for a free-threaded ABI"
        else:
            if tail != ["none"]: return "cpython_tags: without abi3 the sequence must end with the none block"
            if len(v) > 1 and v[:2] >= (3, 2) and not (rest and re.match(r"cp\d+[^\n]*t", rest[0])): return "abi3 missing for a non-free-threaded 3.2+ version"
        return "ok"
    raise KeyError(cmd)
