"""Implementation-side observations of the interpreter-tag domain (C15).

The real generators are driven through their public signatures with explicit arguments; the interpreter configuration that
the default arguments read is steered only through the standard library (sysconfig.get_config_var, sys.version_info,
sys.implementation, sys.maxunicode, sys.gettotalrefcount, the importlib.machinery.EXTENSION_SUFFIXES list object,
platform.system, sysconfig.get_platform).  No private name of `packaging` is assigned to."""
import contextlib, importlib.machinery, platform, re, sys, sysconfig, types
from packaging import tags

_MISSING = object()


@contextlib.contextmanager
def patched(obj, name, value):
    old = getattr(obj, name, _MISSING)
    if value is _MISSING:
        if old is not _MISSING: delattr(obj, name)
    else:
        setattr(obj, name, value)
    try:
        yield
    finally:
        if old is _MISSING:
            if hasattr(obj, name): delattr(obj, name)
        else:
            setattr(obj, name, old)


def plist(s):
    """list argument: every item is preceded by ','"""
    return s.split(",")[1:]


def pv(s):
    return tuple(int(x) for x in s.split("."))


def optn(s):
    return None if s == "N" else int(s)


def opts(s):
    return s[1:] if s[:1] == "S" else None


def show(it):
    return ",".join(str(t) for t in it)


@contextlib.contextmanager
def interpreter(cfg, sysver=None, name=None, nodot=_MISSING, ext=_MISSING, system=None, plat=None):
    """cfg = 'd,g,p,u,r,e,w' (Py_DEBUG, Py_GIL_DISABLED, WITH_PYMALLOC, Py_UNICODE_SIZE, gettotalrefcount?, _d.pyd?, wide?)"""
    d, g, p, u, r, e, w = cfg.split(",")
    table = {"Py_DEBUG": optn(d), "Py_GIL_DISABLED": optn(g), "WITH_PYMALLOC": optn(p), "Py_UNICODE_SIZE": optn(u)}
    if nodot is not _MISSING: table["py_version_nodot"] = nodot
    if ext is not _MISSING: table["EXT_SUFFIX"] = ext
    real = sysconfig.get_config_var

    def get_config_var(n):
        return table[n] if n in table else real(n)

    sufs = importlib.machinery.EXTENSION_SUFFIXES
    assert tags.EXTENSION_SUFFIXES is sufs          # read only: the module shares the stdlib list object
    saved = list(sufs)
    with contextlib.ExitStack() as st:
        st.enter_context(patched(sysconfig, "get_config_var", get_config_var))
        st.enter_context(patched(sys, "gettotalrefcount", (lambda: 0) if r == "T" else _MISSING))
        st.enter_context(patched(sys, "maxunicode", 0x10FFFF if w == "T" else 0xFFFF))
        if sysver is not None:
            st.enter_context(patched(sys, "version_info", tuple(sysver) + (0, "final", 0)))
        if name is not None:
            st.enter_context(patched(sys, "implementation", types.SimpleNamespace(name=name, _multiarch="x86_64-linux-gnu")))
        if system is not None:
            st.enter_context(patched(platform, "system", lambda: system))
            st.enter_context(patched(sysconfig, "get_platform", lambda: plat))
        sufs[:] = [x for x in saved if x != "_d.pyd"] + (["_d.pyd"] if e == "T" else [])
        try:
            yield
        finally:
            sufs[:] = saved


def feed(lst, salt):
    """the parameters are documented as Iterable[str]: the kind handed over (list, one-shot iterator, generator, tuple) is a function
    of the case text, the answer must not depend on it"""
    sel = (sum(len(x) for x in lst) + len(lst) + salt) % 4
    return [lst, iter(lst), (x for x in lst), tuple(lst)][sel]


def observe(cmd, args):
    if cmd == "t.cpython":
        v, abis, ps, cfg = args
        with interpreter(cfg):
            return show(list(tags.cpython_tags(pv(v), None if abis == "?" else feed(plist(abis), 0), feed(plist(ps), 1) if plist(ps) else plist(ps))))
    if cmd == "t.compat":
        v, interp, ps = args
        return show(tags.compatible_tags(pv(v), interp or None, feed(plist(ps), 1) if plist(ps) else plist(ps)))
    if cmd == "t.generic":
        interp, abis, ps = args
        return show(tags.generic_tags(interp, feed(plist(abis), 0), feed(plist(ps), 1) if plist(ps) else plist(ps)))
    if cmd == "t.gabi":
        ext, cfg, sysver = args
        with interpreter(cfg, sysver=pv(sysver), ext=opts(ext)):
            try:
                return show(list(tags.generic_tags("xx", None, ["p"])))
            except SystemError:
                return "E"
    if cmd == "t.sys":
        name, nodot, sysver, ext, cfg, plat = args
        with interpreter(cfg, sysver=pv(sysver), name=name, nodot=opts(nodot), ext=opts(ext), system="Generic", plat=plat):
            try:
                return show(list(tags.sys_tags()))
            except SystemError:
                return "E"
    if cmd == "law.t.shape":
        # clauses of the statement evaluated directly on the implementation (inputs: lower-case ASCII, no '-' in platforms)
        v, abis, ps, interp = args
        v, abis, ps = pv(v), plist(abis), plist(ps)
        cp = [str(t) for t in tags.cpython_tags(v, abis, ps)]
        co = [str(t) for t in tags.compatible_tags(v, interp or None, ps)]
        ge = [str(t) for t in tags.generic_tags(interp or "xx1", abis, ps)]
        nodup = lambda l: len(set(l)) == len(l)
        if nodup(abis) and nodup(ps):
            if not nodup(cp): return "cpython_tags repeats a tag"
            if not nodup(ge): return "generic_tags repeats a tag"
            if "any" not in ps and not (interp or "").startswith("py") and not nodup(co): return "compatible_tags repeats a tag"
        nany = (len(co) - (1 if interp else 0)) // (len(ps) + 1)
        for nm, seq in (("cpython_tags", cp), ("compatible_tags", co[:nany * len(ps)]), ("generic_tags", ge)):
            if len(seq) % len(ps): return nm + ": a block is not a whole platform list"
            for k in range(0, len(seq), len(ps)):
                blk = seq[k:k + len(ps)]
                if [t.rsplit("-", 1)[1] for t in blk] != ps: return nm + ": platform order inside a block differs from the caller's"
                if len({t.rsplit("-", 1)[0] for t in blk}) != 1: return nm + ": a block mixes interpreter/abi"
        if abis.count("abi3") <= 1 and abis.count("none") <= 1 and any(t.split("-")[1] == "abi3" for t in cp):
            rest = [a for a in abis if a not in ("abi3", "none")]
            if len(v) < 2 or v[:2] < (3, 2): return "abi3 offered below 3.2 / for a major-only version"
            if rest and re.match(r"cp[0-9]+[^\n]*t", rest[0]): return "abi3 offered for a free-threaded ABI"
        return "ok"
    raise KeyError(cmd)
