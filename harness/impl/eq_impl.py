"""Implementation-side observations for C10: equality / hash / interchangeability of the six public value types."""
import itertools
from packaging.version import Version, InvalidVersion
from packaging.specifiers import Specifier, SpecifierSet, InvalidSpecifier
from packaging.markers import Marker, InvalidMarker, UndefinedComparison
from packaging.requirements import Requirement, InvalidRequirement
from packaging.tags import Tag, parse_tag
from packaging.utils import canonicalize_name
import spec_impl, version_impl

def b(x): return "T" if x else "F"

def build(kind, s):
    try:
        if kind == "version": return Version(s)
        if kind == "specifier": return Specifier(s)
        if kind == "set":
            if s.startswith("AND:"):                                   # the other construction route: a & b
                a, _, c = s[4:].partition("|")
                return SpecifierSet(a) & SpecifierSet(c)
            if s.startswith("ANDS:"):                                  # a & "text"
                a, _, c = s[5:].partition("|")
                return SpecifierSet(a) & c
            if s.startswith("OBJ:"):                                   # from Specifier objects
                return SpecifierSet([Specifier(t) for t in s[4:].split("|") if t.strip()])
            return SpecifierSet(s)
        if kind == "marker":
            if s.startswith("REQ:"): return Requirement("x; " + s[4:]).marker      # the other construction route
            return Marker(s)
        if kind == "requirement":
            if s.startswith("NAME:"):                                  # a Requirement is a mutable record: the name assigned after parsing
                nm, _, t = s[5:].partition("|")
                r = Requirement(t); r.name = nm
                return r
            return Requirement(s)
        if kind == "tag":
            parts = s.split("-")
            return Tag(*parts) if len(parts) == 3 else None
    except (InvalidVersion, InvalidSpecifier, InvalidMarker, InvalidRequirement):
        return None

CANDS = ["1.0", "1.0.0", "1", "0.9", "1.1", "2.0", "1.0a1", "1.0.post1", "1.0.dev1", "1.0+x", "1!1.0", "2.0rc1", "1.5", "1.0.1", "3", "0"]
ENVS_EXTRA_VALUES = ['a"b\'c', 'a\\x22b\'c', "a\\b", 'a"b', "a'b", "caf\u00e9", "caf\\xe9", "\u00fcber", "\\xfcber", "\\u00fcber"]
ENVS = [dict(os_name=a, sys_platform=c, python_version=d, python_full_version=d + ".1", platform_machine="x86_64", platform_release="5.15",
             platform_system="Linux", platform_version="#1", implementation_name="cpython", implementation_version=d + ".1",
             platform_python_implementation="CPython", extra=e)
        for a in ("posix", "nt") for c in ("linux", "win32") for d in ("3.8", "3.12") for e in ("", "foo-bar", "x")]
ENVS += [dict(ENVS[0], platform_version=v, os_name=v, platform_release=v) for v in ENVS_EXTRA_VALUES]

import re
def near(texts):
    """candidates next to the versions the texts themselves name (the fixed battery sits near 1.0 only)"""
    out = []
    for t in texts:
        for cl in re.split(r"[,|]", re.sub(r"^(AND|ANDS|OBJ):", "", t)):
            x = cl.strip().lstrip("~=!<>").strip()
            if x.endswith(".*"): x = x[:-2]
            try: v = Version(x)
            except InvalidVersion: continue
            rel = list(v.release); e = "%d!" % v.epoch if v.epoch else ""
            base = e + ".".join(map(str, rel)); nxt = e + ".".join(map(str, rel[:-1] + [rel[-1] + 1]))
            out += [str(v), v.public, base, base + ".0", base + "a1", base + ".post1", base + ".dev1", base + "+loc", nxt, nxt + "a1", nxt + ".dev0", base + ".1"]
    seen = []
    for c in out:
        if c not in seen: seen.append(c)
    return seen[:14]

def behaviour(kind, o, extra_cands=()):
    """the observable behaviour the property names for each type"""
    if kind == "version":
        return (str(Version(str(o)) == o),)
    if kind == "specifier":
        out = []
        for c in list(CANDS) + list(extra_cands):
            for arg in (None, True, False):
                try: out.append(o.contains(c, prereleases=arg))
                except InvalidVersion: out.append("EV")
        for arg in (None, True, False):
            out.append(tuple(o.filter(list(CANDS) + list(extra_cands), prereleases=arg)))
        out.append(o.prereleases)
        return tuple(out)
    if kind == "set":
        out = []
        for c in list(CANDS) + list(extra_cands):
            for arg in (None, True, False):
                try: out.append(o.contains(c, prereleases=arg))
                except InvalidVersion: out.append("EV")
            out.append(o.contains(c, installed=True))
        for arg in (None, True, False):
            out.append(tuple(o.filter(list(CANDS) + list(extra_cands), prereleases=arg)))
        out.append(o.prereleases)
        return tuple(out)
    if kind == "marker":
        out = []
        for env in ENVS:
            try: out.append(o.evaluate(env))
            except UndefinedComparison: out.append("UC")
        return tuple(out)
    if kind == "requirement":
        # equal parts - and the parts themselves behave alike: the specifier set matches / filters, the marker evaluates
        return (canonicalize_name(o.name), frozenset(o.extras), o.specifier, o.url, o.marker,
                behaviour("set", o.specifier, extra_cands), None if o.marker is None else behaviour("marker", o.marker))
    if kind == "tag":
        return (o.interpreter, o.abi, o.platform)

def observe(cmd, args):
    if cmd.startswith("v."): return version_impl.observe(cmd, args)
    if cmd == "sp.eq":
        x, y = build("specifier", args[0]), build("specifier", args[1])
        if x is None or y is None: return "E"
        return b(x == y)
    if cmd.startswith("sp."): return spec_impl.observe(cmd, args)
    if cmd.startswith("s."):
        import sets_impl
        return sets_impl.observe(cmd, args)
    if cmd == "law.eq":
        kind, texts = args[0], args[1:]
        objs = [build(kind, t) for t in texts]
        objs = [(t, o) for t, o in zip(texts, objs) if o is not None]
        extra = near(texts) if kind in ("specifier", "set") else near([re.sub(r"^[^<>=!~(]*", "", t.split(";")[0].split("@")[0]).strip("() ") for t in texts]) if kind == "requirement" else ()
        for t, x in objs:
            if not (x == x) or (x != x): return "%s not equal to itself: %r" % (kind, t)
            if hash(x) != hash(build(kind, t)): return "%s hash differs between two constructions of %r" % (kind, t)
            if not (x == build(kind, t)): return "%s: two constructions of %r are unequal" % (kind, t)
            if kind == "requirement":
                y = Requirement(str(x))
                if not (y == x) or hash(y) != hash(x): return "requirement: str(x) does not parse back to an equal requirement with the same hash: %r" % t
        memo = {}
        def beh(t, o):
            if id(o) not in memo: memo[id(o)] = behaviour(kind, o, extra)
            return memo[id(o)]
        for (t1, x), (t2, y) in itertools.product(objs, repeat=2):
            e = x == y
            if e != (y == x): return "%s == not symmetric: %r %r" % (kind, t1, t2)
            if (x != y) != (not e): return "%s != is not the negation of ==: %r %r" % (kind, t1, t2)
            if e:
                if hash(x) != hash(y): return "%s equal but hashes differ: %r %r" % (kind, t1, t2)
                if len({x, y}) != 1 or {x: 1}.get(y) != 1: return "%s equal but distinct in set/dict: %r %r" % (kind, t1, t2)
                bx, by = beh(t1, x), beh(t2, y)
                if bx != by: return "%s equal but behave differently: %r %r" % (kind, t1, t2)
            for t3, z in objs:
                if e and (y == z) and not (x == z): return "%s == not transitive: %r %r %r" % (kind, t1, t2, t3)
        return "ok"
    raise KeyError(cmd)
