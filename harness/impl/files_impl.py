"""Implementation-side observations of the filename / tag domain (C14): parse_wheel_filename, parse_sdist_filename, parse_tag, Tag."""
import re
from packaging.utils import (parse_wheel_filename, parse_sdist_filename, InvalidWheelFilename, InvalidSdistFilename)
from packaging.tags import Tag, parse_tag
from packaging.version import Version, InvalidVersion
from names_impl import fold, sig, gen_table

def b(x): return "T" if x else "F"

def show_tags(ts):
    if not isinstance(ts, frozenset) or not all(type(t) is Tag for t in ts): return "not a frozenset of Tag"
    return ".".join(sorted(str(t) for t in ts))

def show_build(bt):
    if bt == (): return "()"
    n, suf = bt
    if type(n) is not int or type(suf) is not str: return "build tuple of the wrong types"
    return "%d,%s" % (n, suf)

def observe(cmd, args):
    if cmd == "f.wheel":
        try: name, v, bt, ts = parse_wheel_filename(args[0])
        except InvalidWheelFilename: return "E"
        return "|".join(["OK", name, str(v), show_tags(ts), show_build(bt)])
    if cmd == "f.sdist":
        try: name, v = parse_sdist_filename(args[0])
        except InvalidSdistFilename: return "E"
        return "|".join(["OK", name, str(v)])
    if cmd == "f.tag":
        ts = parse_tag(args[0])        # no documented exception: a malformed tag escapes as !EXC:<Class> (compared loosely, see props/c14.py)
        return "%d|%s" % (len(ts), show_tags(ts))
    if cmd == "f.tageq":
        x, y = Tag(*args[0:3]), Tag(*args[3:6])
        eq = x == y
        if (x != y) == eq: return "== and != disagree"
        if eq and hash(x) != hash(y): return "equal tags with different hashes"
        if eq != (len({x, y}) == 1): return "set membership disagrees with =="
        return "|".join([x.interpreter, x.abi, x.platform, str(x), b(eq)])
    if cmd == "law.f.wheel": return law_wheel(*args)
    if cmd == "law.f.sdist": return law_sdist(*args)
    if cmd == "law.f.tags": return law_tags(args[0])
    if cmd == "law.f.reject": return law_reject(*args)
    if cmd == "law.f.tables": return law_tables()
    if cmd == "law.f.tagstr": return law_tagstr(*args)
    raise KeyError(cmd)


# ---- the statement, evaluated directly on the implementation ----
def escape(name, lower):
    """Binary-distribution / source-distribution spec: runs of -_. become one underscore (and, in the current spec, lower case)."""
    e = re.sub(r"[-_.]+", "_", name)
    return e.lower() if lower == "T" else e

def parts(x): return x.split(".")

def law_wheel(name, version, build, pys, abis, plats, lower):
    fn = "-".join([escape(name, lower), version] + ([build] if build else []) + [pys, abis, plats]) + ".whl"
    try: gn, gv, gb, gt = parse_wheel_filename(fn)
    except InvalidWheelFilename: return "assembled name rejected: %r" % fn
    if sig(name, gn) != sig(name, fold(name)): return "name %r is not the PEP 503 form of %r" % (gn, name)
    want = Version(version)
    if not (gv == want) or str(gv) != str(want) or hash(gv) != hash(want): return "version %r differs from %r" % (str(gv), version)
    if build:
        m = re.fullmatch(r"([0-9]+)([^0-9].*|)", build, re.S)
        if gb != (int(m.group(1)), m.group(2)): return "build %r from %r" % (gb, build)
        if type(gb[0]) is not int or gb[0] < 0: return "build number %r" % (gb[0],)
    elif gb != (): return "build %r without a build tag" % (gb,)
    exp = {(i.lower(), a.lower(), p.lower()) for i in parts(pys) for a in parts(abis) for p in parts(plats)}
    got = [(t.interpreter, t.abi, t.platform) for t in gt]
    if set(got) != exp or len(got) != len(exp): return "tags of %r are not the cartesian product" % fn
    if gt != frozenset(Tag(*e) for e in exp): return "tag set differs from the set of Tag objects built directly"
    return "ok"

def law_sdist(name, version, ext, lower):
    fn = escape(name, lower) + "-" + version + ext
    try: gn, gv = parse_sdist_filename(fn)
    except InvalidSdistFilename: return "assembled name rejected: %r" % fn
    if sig(name, gn) != sig(name, fold(name)): return "name %r is not the PEP 503 form of %r" % (gn, name)
    want = Version(version)
    if not (gv == want) or str(gv) != str(want): return "version %r differs from %r" % (str(gv), version)
    return "ok"

def law_tags(s):
    try: ts = parse_tag(s)
    except ValueError: return "ok"          # not a three-part tag: the statement is silent
    for t in ts:
        if parse_tag(str(t)) != frozenset({t}): return "parse_tag(str(t)) != {t} for %s" % t
        cv = lambda f, x: f(x) if f(x).lower() == x.lower() else x      # a case variant: another spelling with the same str.lower() (not 'ß' -> 'SS')
        for u in (Tag(cv(str.upper, t.interpreter), cv(str.upper, t.abi), cv(str.upper, t.platform)), Tag(cv(str.swapcase, t.interpreter), t.abi, cv(str.title, t.platform))):
            if not (u == t) or u != t or hash(u) != hash(t) or str(u) != str(t): return "Tag is case-sensitive on %s" % t
            if (u.interpreter, u.abi, u.platform) != (t.interpreter, t.abi, t.platform): return "fields not normalised on %s" % t
    for v in (s.upper(), s.lower()):            # whole-string variants: U+03A3 is left out (its lower-casing depends on what follows the field)
        if "\u03a3" in s: break
        if len(v) == len(s) and all(a.lower() == b.lower() for a, b in zip(v, s)) and parse_tag(v) != ts: return "parse_tag is case-sensitive on %r" % s
    return "ok"

def law_reject(kind, fn):
    """A damaged name of the given class must be rejected with the documented exception."""
    try:
        if kind.startswith("sdist"):
            parse_sdist_filename(fn)
        else:
            parse_wheel_filename(fn)
    except (InvalidSdistFilename if kind.startswith("sdist") else InvalidWheelFilename):
        return "ok"
    return "%s accepted: %r" % (kind, fn)

def law_tagstr(i, a, p):
    """parse_tag(str(t)) is {t}, on a directly constructed tag; equal to the tag built from its own (already lower-cased) fields."""
    t = Tag(i, a, p)
    if Tag(t.interpreter, t.abi, t.platform) != t: return "Tag fields are not a fixed point of the lower-casing on %s" % t
    if (t.interpreter, t.abi, t.platform) != (i.lower(), a.lower(), p.lower()): return "Tag fields are not the lower-cased arguments on %s" % t
    got = parse_tag(str(t))
    if got != frozenset({t}): return "parse_tag(str(t)) != {t} for %s: %d member(s)" % (t, len(got))
    return "ok"

def law_tables():
    """The generated tables coq/Gen/WordTable.v against the running interpreter, for every code point: \\w under re.UNICODE, \\d, int()."""
    words = gen_table("WordTable.v", "word_ranges", 2); digs = gen_table("WordTable.v", "digit_ranges", 3)
    W = re.compile(r"\w", re.UNICODE); D = re.compile(r"\d")
    wset = set(); dval = {}
    for lo, hi in words: wset.update(range(lo, hi + 1))
    for lo, hi, v in digs:
        for cp in range(lo, hi + 1): dval[cp] = v + cp - lo
    for cp in range(0x110000):
        c = chr(cp); w = W.match(c) is not None; d = D.match(c) is not None
        if cp < 128:
            if w != (c.isascii() and (c.isalnum() or c == "_")): return "ASCII %r: \\w is %r" % (c, w)
            if d != ("0" <= c <= "9"): return "ASCII %r: \\d is %r" % (c, d)
            if cp in wset or cp in dval: return "ASCII %r in a non-ASCII table" % c
            continue
        if w != (cp in wset): return "U+%04X: \\w is %r, generated table says %r" % (cp, w, cp in wset)
        if d != (cp in dval): return "U+%04X: \\d is %r, generated table says %r" % (cp, d, cp in dval)
        if d and (int(c) != dval[cp] or not 0 <= dval[cp] <= 9): return "U+%04X: int() is %r, generated table says %r" % (cp, int(c), dval[cp])
        if d and not w: return "U+%04X matches \\d but not \\w" % cp
    if int("7\u0967") != 71 or int("\u0967\uff11") != 11: return "int() is not positional over mixed-script digits"
    return "ok"
