"""Implementation-side observations of the filename / tag domain (C14): parse_wheel_filename, parse_sdist_filename, parse_tag, Tag."""
import re
from packaging.utils import (parse_wheel_filename, parse_sdist_filename, InvalidWheelFilename, InvalidSdistFilename)
from packaging.tags import Tag, parse_tag
from packaging.version import Version, InvalidVersion
from names_impl import fold

def b(x): return "T" if x else "F"

def show_tags(ts):
    if not isinstance(ts, frozenset) or not all(type(t) is Tag for t in ts): return "not a frozenset of Tag"
    return ".".join(sorted(str(t) for t in ts))

def show_build(bt):
    if bt == (): return "()"
    n, suf = bt
    if type(n) is not int or type(suf) is not str: return "build tuple of the wrong types"
    return "%d,%s" % (n, suf)

def observe(cmd, args):
    if cmd == "f.wheel":
        try: name, v, bt, ts = parse_wheel_filename(args[0])
        except InvalidWheelFilename: return "E"
        return "|".join(["OK", name, str(v), show_tags(ts), show_build(bt)])
    if cmd == "f.sdist":
        try: name, v = parse_sdist_filename(args[0])
        except InvalidSdistFilename: return "E"
        return "|".join(["OK", name, str(v)])
    if cmd == "f.tag":
        ts = parse_tag(args[0])        # no documented exception: a malformed tag escapes as !EXC:<Class> (compared loosely, see props/c14.py)
        return "%d|%s" % (len(ts), show_tags(ts))
    if cmd == "f.tageq":
        x, y = Tag(*args[0:3]), Tag(*args[3:6])
        eq = x == y
        if (x != y) == eq: return "== and != disagree"
        if eq and hash(x) != hash(y): return "equal tags with different hashes"
        if eq != (len({x, y}) == 1): return "set membership disagrees with =="
        return "|".join([x.interpreter, x.abi, x.platform, str(x), b(eq)])
    if cmd == "law.f.wheel": return law_wheel(*args)
    if cmd == "law.f.sdist": return law_sdist(*args)
    if cmd == "law.f.tags": return law_tags(args[0])
    if cmd == "law.f.reject": return law_reject(*args)
    raise KeyError(cmd)


# ---- the statement, evaluated directly on the implementation ----
def escape(name, lower):
    """Binary-distribution / source-distribution spec: runs of -_. become one underscore (and, in the current spec, lower case)."""
    e = re.sub(r"[-_.]+", "_", name)
    return e.lower() if lower == "T" else e

def parts(x): return x.split(".")

def law_wheel(name, version, build, pys, abis, plats, lower):
    fn = "-".join([escape(name, lower), version] + ([build] if build else []) + [pys, abis, plats]) + ".whl"
    try: gn, gv, gb, gt = parse_wheel_filename(fn)
    except InvalidWheelFilename: return "assembled name rejected: %r" % fn
    if gn != fold(name): return "name %r is not the PEP 503 form of %r" % (gn, name)
    want = Version(version)
    if not (gv == want) or str(gv) != str(want) or hash(gv) != hash(want): return "version %r differs from %r" % (str(gv), version)
    if build:
        m = re.fullmatch(r"([0-9]+)([^0-9].*|)", build, re.S)
        if gb != (int(m.group(1)), m.group(2)): return "build %r from %r" % (gb, build)
    elif gb != (): return "build %r without a build tag" % (gb,)
    exp = {(i.lower(), a.lower(), p.lower()) for i in parts(pys) for a in parts(abis) for p in parts(plats)}
    got = [(t.interpreter, t.abi, t.platform) for t in gt]
    if set(got) != exp or len(got) != len(exp): return "tags of %r are not the cartesian product" % fn
    if gt != frozenset(Tag(*e) for e in exp): return "tag set differs from the set of Tag objects built directly"
    return "ok"

def law_sdist(name, version, ext, lower):
    fn = escape(name, lower) + "-" + version + ext
    try: gn, gv = parse_sdist_filename(fn)
    except InvalidSdistFilename: return "assembled name rejected: %r" % fn
    if gn != fold(name): return "name %r is not the PEP 503 form of %r" % (gn, name)
    want = Version(version)
    if not (gv == want) or str(gv) != str(want): return "version %r differs from %r" % (str(gv), version)
    return "ok"

def law_tags(s):
    try: ts = parse_tag(s)
    except ValueError: return "ok"          # not a three-part tag: the statement is silent
    for t in ts:
        if parse_tag(str(t)) != frozenset({t}): return "parse_tag(str(t)) != {t} for %s" % t
        for u in (Tag(t.interpreter.upper(), t.abi.upper(), t.platform.upper()), Tag(t.interpreter.swapcase(), t.abi, t.platform.title())):
            if not (u == t) or u != t or hash(u) != hash(t) or str(u) != str(t): return "Tag is case-sensitive on %s" % t
            if (u.interpreter, u.abi, u.platform) != (t.interpreter, t.abi, t.platform): return "fields not normalised on %s" % t
    if parse_tag(s.upper()) != ts or parse_tag(s.lower()) != ts: return "parse_tag is case-sensitive on %r" % s
    return "ok"

def law_reject(kind, fn):
    """A damaged name of the given class must be rejected with the documented exception."""
    try:
        if kind.startswith("sdist"):
            parse_sdist_filename(fn)
        else:
            parse_wheel_filename(fn)
    except (InvalidSdistFilename if kind.startswith("sdist") else InvalidWheelFilename):
        return "ok"
    return "%s accepted: %r" % (kind, fn)
