"""Implementation-side observations of single specifiers (C03, C04, C12)."""
from packaging.specifiers import Specifier, SpecifierSet, InvalidSpecifier
from packaging.version import Version, InvalidVersion
from packaging.requirements import Requirement, InvalidRequirement

def b(x): return "T" if x else "F"
TRI = {"N": None, "T": True, "F": False}

def mk(s):
    try: return Specifier(s)
    except InvalidSpecifier: return None

def contains(sp, item, arg):
    try: return b(sp.contains(item, prereleases=arg))
    except InvalidVersion: return "EV"

class SubVersion(Version):
    """a subclass instance must be taken as it is by _coerce_version (isinstance check)"""

def cand(text, kind):
    """the candidate object handed to contains(): the text itself, Version(text) or an instance of a Version subclass (InvalidVersion escapes)"""
    if kind == "obj": return Version(text)
    if kind == "sub": return SubVersion(text)
    return text

def with_setting(s, sp, ov, how):
    """the object's own pre-release setting: constructor keyword, or attribute assigned after construction (how == "a")"""
    if ov not in ("T", "F"): return sp
    if how == "a":
        sp.prereleases = TRI[ov]
        return sp
    return Specifier(s, prereleases=TRI[ov])

import version_impl

def observe(cmd, args):
    if cmd.startswith("v."): return version_impl.observe(cmd, args)
    if cmd == "sp.parse":
        sp = mk(args[0])
        if sp is None: return "E"
        return "|".join(["OK", sp.operator, sp.version, str(sp), b(sp.prereleases)])
    if cmd == "sp.contains":
        sp = mk(args[0])
        if sp is None: return "ES"
        if len(args) > 3 and args[3] in "TF" and args[3]:
            # the object's own setting: constructor keyword, or attribute assigned after construction (args[4] == "a")
            if len(args) > 4 and args[4] == "a": sp.prereleases = TRI[args[3]]
            else: sp = Specifier(args[0], prereleases=TRI[args[3]])
        r = contains(sp, args[2], TRI[args[1]])
        if TRI[args[1]] is None and r in "TF":
            try:
                if (args[2] in sp) != (r == "T"): return "in-operator disagrees with contains()"
            except InvalidVersion: return "in-operator raises"
        return r
    if cmd == "sp.sem":
        sp = mk(args[0])
        if sp is None: return "ES"
        return contains(sp, args[1], True)
    if cmd == "sp.sem.obj":
        # pre-releases enabled by the object's own setting, no call argument; through contains() or `in`; str / Version / subclass candidate
        s, item, via, kind, how = args
        sp = mk(s)
        if sp is None: return "ES"
        sp = with_setting(s, sp, "T", how)
        try:
            x = cand(item, kind)
            return b(x in sp) if via == "in" else b(sp.contains(x))
        except InvalidVersion: return "EV"
    if cmd == "sp.query":
        s, arg, item, ov, how, via, kind = args
        sp = mk(s)
        if sp is None: return "ES"
        sp = with_setting(s, sp, ov, how)
        try:
            x = cand(item, kind)
            return b(x in sp) if via == "in" else b(sp.contains(x, prereleases=TRI[arg]))
        except InvalidVersion: return "EV"
    if cmd == "law.sp.oracle":
        # third leg: the expected answer was computed by the harness from the STRUCTURED versions (gen_spec.oracle), prereleases=True
        s, item, want, kind = args
        sp = mk(s)
        if sp is None: return "specifier rejected"
        try: got = b(sp.contains(cand(item, kind), prereleases=True))
        except InvalidVersion: return "candidate rejected"
        return "ok" if got == want else "contains() says %s, the structured reading of the statement says %s" % (got, want)
    if cmd == "law.sp.pair":
        # laws of C04 on one specifier version text V (args[0], without operator; may end in ".*") and two candidates c, c2;
        # args[3]: the prereleases argument every contains() call gets (T/N/F, default T); args[4]: candidates passed as str / Version object / subclass;
        # args[5] == "E": the prefix specifier of the ~= law is spelled exactly as SpecLift.prefix_text ("E!r1.r2....*", epoch always written)
        vtxt, c, c2 = args[:3]
        setting = TRI[args[3]] if len(args) > 3 else True
        kind = args[4] if len(args) > 4 else "str"
        def S(op):
            return mk(op + vtxt)
        try: vc, vc2 = Version(c), Version(c2)
        except InvalidVersion: return "ok"
        objs = {c: cand(c, kind), c2: cand(c2, kind)}
        def has(sp, x):
            return sp.contains(objs.get(x, x), prereleases=setting)
        def gate_open(vx):
            # the answers are the operator's own (laws about the operators apply) when the candidate passes the pre-release gate whatever the operator
            return setting is True or not vx.is_prerelease
        eq, ne, ge, le, lt, gt, co = (S(o) for o in ("==", "!=", ">=", "<=", "<", ">", "~="))
        both = ((c, vc), (c2, vc2))
        if eq is not None and ne is not None:
            for x, vx in both:
                if gate_open(vx) and has(eq, x) == has(ne, x): return "!= is not the complement of == on %r" % x
        wild = vtxt.endswith(".*")
        try: V = Version(vtxt[:-2] if wild else vtxt)
        except InvalidVersion: return "ok"
        specs = [("==", eq), ("!=", ne), (">=", ge), ("<=", le), ("<", lt), (">", gt), ("~=", co)]
        for name, sp in specs:
            if sp is None: continue
            # equal candidates get the same answer (every setting)
            if vc == vc2 and has(sp, c) != has(sp, c2): return "%s%s: equal candidates %r %r answered differently" % (name, vtxt, c, c2)
            # a specifier without local label: local label of the candidate is irrelevant (every setting)
            if V.local is None:
                for x, vx in both:
                    if vx.local is not None and has(sp, x) != has(sp, vx.public): return "%s%s: local label of %r matters" % (name, vtxt, x)
            # a closed gate refuses every pre-release
            if setting is False:
                for x, vx in both:
                    if vx.is_prerelease and has(sp, x): return "%s%s: pre-release %r accepted with prereleases=False" % (name, vtxt, x)
        if wild: return "ok"
        # theorem C04_self_match_contains: any two spellings of V itself (the text after the operator, str(V), the candidate when it is V):
        # ==, >=, <=, ~= hold and !=, <, > fail, with pre-releases enabled
        own = [vtxt, str(V)] + [x for x, vx in both if (vx.epoch, vx.release, vx.pre, vx.post, vx.dev, vx.local) == (V.epoch, V.release, V.pre, V.post, V.dev, V.local)]
        for name, sp in specs:
            if sp is None: continue
            for x in own:
                if sp.contains(objs.get(x, x), prereleases=True) != (name in ("==", ">=", "<=", "~=")):
                    return "%s%s: the version itself, spelled %r, is %s" % (name, vtxt, x, "rejected" if name in ("==", ">=", "<=", "~=") else "accepted")
        if ge is not None and le is not None:
            for x, vx in both:
                if not gate_open(vx): continue
                if not (has(ge, x) or has(le, x)): return ">= and <= do not cover %r" % x
                if lt is not None and has(lt, x) and not has(le, x): return "< not inside <= on %r" % x
                if gt is not None and has(gt, x) and not has(ge, x): return "> not inside >= on %r" % x
                if Version(vx.public) == V:
                    if lt is not None and has(lt, x): return "<V matches V or a local version of V: %r" % x
                    if gt is not None and has(gt, x): return ">V matches V or a local version of V: %r" % x
            if gate_open(vc) and gate_open(vc2):
                lo, hi = (c, c2) if Version(vc.public) <= Version(vc2.public) else (c2, c)
                if has(ge, lo) and not has(ge, hi): return ">=%s not upward closed: %r %r" % (vtxt, lo, hi)
                if has(le, hi) and not has(le, lo): return "<=%s not downward closed: %r %r" % (vtxt, lo, hi)
        if co is not None and ge is not None:
            rel = list(V.release)[:-1]
            exact = len(args) > 5 and args[5] == "E"
            pfx = mk("==" + (("%d!" % V.epoch) if (V.epoch or exact) else "") + ".".join(map(str, rel)) + ".*")
            if pfx is not None:
                for x, vx in both:
                    if gate_open(vx) and has(co, x) != (has(ge, x) and has(pfx, x)): return "~=%s is not >= and prefix match on %r" % (vtxt, x)
        return "ok"
    if cmd == "law.sp.embedded":
        # a clause is accepted inside a requirement exactly when Specifier accepts it (clause = stripped text starting with an operator)
        # optional args: [1] the distribution name (default "x"), [2] how the clause is attached: plain | space | paren | parenx | extra
        cl = args[0]
        name = args[1] if len(args) > 1 else "x"
        form = args[2] if len(args) > 2 else "plain"
        text = {"plain": name + cl, "space": name + " " + cl, "paren": name + " (" + cl + ")", "parenx": name + "(" + cl + " )",
                "extra": name + "[e] " + cl}[form]
        sp = mk(cl)
        try: r = Requirement(text)
        except InvalidRequirement: r = None
        if (sp is None) != (r is None): return "Specifier %s, Requirement %s" % ("rejects" if sp is None else "accepts", "rejects" if r is None else "accepts")
        if sp is not None and (len(r.specifier) != 1 or list(r.specifier)[0] != sp or r.name != name): return "clause inside requirement is not the same specifier"
        return "ok"
    raise KeyError(cmd)
