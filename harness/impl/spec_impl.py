"""Implementation-side observations of single specifiers (C03, C04, C12)."""
from packaging.specifiers import Specifier, SpecifierSet, InvalidSpecifier
from packaging.version import Version, InvalidVersion
from packaging.requirements import Requirement, InvalidRequirement

def b(x): return "T" if x else "F"
TRI = {"N": None, "T": True, "F": False}

def mk(s):
    try: return Specifier(s)
    except InvalidSpecifier: return None

def contains(sp, item, arg):
    try: return b(sp.contains(item, prereleases=arg))
    except InvalidVersion: return "EV"

import version_impl

def observe(cmd, args):
    if cmd.startswith("v."): return version_impl.observe(cmd, args)
    if cmd == "sp.parse":
        sp = mk(args[0])
        if sp is None: return "E"
        return "|".join(["OK", sp.operator, sp.version, str(sp), b(sp.prereleases)])
    if cmd == "sp.contains":
        sp = mk(args[0])
        if sp is None: return "ES"
        if len(args) > 3 and args[3] in "TF" and args[3]:
            # the object's own setting: constructor keyword, or attribute assigned after construction (args[4] == "a")
            if len(args) > 4 and args[4] == "a": sp.prereleases = TRI[args[3]]
            else: sp = Specifier(args[0], prereleases=TRI[args[3]])
        r = contains(sp, args[2], TRI[args[1]])
        if TRI[args[1]] is None and r in "TF":
            try:
                if (args[2] in sp) != (r == "T"): return "in-operator disagrees with contains()"
            except InvalidVersion: return "in-operator raises"
        return r
    if cmd == "sp.sem":
        sp = mk(args[0])
        if sp is None: return "ES"
        return contains(sp, args[1], True)
    if cmd == "law.sp.pair":
        # laws of C04 on one specifier version text V (args[0], without operator) and two candidates c, c2
        vtxt, c, c2 = args
        def S(op):
            return mk(op + vtxt)
        def has(sp, x):
            return sp.contains(x, prereleases=True)
        try: vc, vc2 = Version(c), Version(c2)
        except InvalidVersion: return "ok"
        eq, ne, ge, le, lt, gt, co = (S(o) for o in ("==", "!=", ">=", "<=", "<", ">", "~="))
        if eq is not None and ne is not None:
            for x in (c, c2):
                if has(eq, x) == has(ne, x): return "!= is not the complement of == on %r" % x
        if vtxt.endswith(".*"): return "ok"
        try: V = Version(vtxt)
        except InvalidVersion: return "ok"
        specs = [("==", eq), ("!=", ne), (">=", ge), ("<=", le), ("<", lt), (">", gt), ("~=", co)]
        for name, sp in specs:
            if sp is None: continue
            # equal candidates get the same answer
            if vc == vc2 and has(sp, c) != has(sp, c2): return "%s%s: equal candidates %r %r answered differently" % (name, vtxt, c, c2)
            # a specifier without local label: local label of the candidate is irrelevant
            if V.local is None:
                for x, vx in ((c, vc), (c2, vc2)):
                    if vx.local is not None and has(sp, x) != has(sp, vx.public): return "%s%s: local label of %r matters" % (name, vtxt, x)
        if ge is not None and le is not None:
            for x, vx in ((c, vc), (c2, vc2)):
                if not (has(ge, x) or has(le, x)): return ">= and <= do not cover %r" % x
                if lt is not None and has(lt, x) and not has(le, x): return "< not inside <= on %r" % x
                if gt is not None and has(gt, x) and not has(ge, x): return "> not inside >= on %r" % x
                if Version(vx.public) == V:
                    if lt is not None and has(lt, x): return "<V matches V or a local version of V: %r" % x
                    if gt is not None and has(gt, x): return ">V matches V or a local version of V: %r" % x
            lo, hi = (c, c2) if Version(vc.public) <= Version(vc2.public) else (c2, c)
            if has(ge, lo) and not has(ge, hi): return ">=%s not upward closed: %r %r" % (vtxt, lo, hi)
            if has(le, hi) and not has(le, lo): return "<=%s not downward closed: %r %r" % (vtxt, lo, hi)
        if co is not None and ge is not None:
            rel = list(V.release)[:-1]
            pfx = mk("==" + (("%d!" % V.epoch) if V.epoch else "") + ".".join(map(str, rel)) + ".*")
            if pfx is not None:
                for x in (c, c2):
                    if has(co, x) != (has(ge, x) and has(pfx, x)): return "~=%s is not >= and prefix match on %r" % (vtxt, x)
        return "ok"
    if cmd == "law.sp.embedded":
        # a clause is accepted inside a requirement exactly when Specifier accepts it (clause = stripped text starting with an operator)
        cl = args[0]
        sp = mk(cl)
        try: r = Requirement("x" + cl)
        except InvalidRequirement: r = None
        if (sp is None) != (r is None): return "Specifier %s, Requirement %s" % ("rejects" if sp is None else "accepts", "rejects" if r is None else "accepts")
        if sp is not None and (len(r.specifier) != 1 or list(r.specifier)[0] != sp or r.name != "x"): return "clause inside requirement is not the same specifier"
        return "ok"
    raise KeyError(cmd)
