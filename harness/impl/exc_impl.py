"""C11: which exception classes escape each public entry point.  observe("law.exc", [entry, input]) -> "ok" | "escaped: <Class> ...".
Inputs are str; for byte entry points the input is a str of code points < 256 (latin-1 bytes)."""
import io
from packaging.version import Version, InvalidVersion
from packaging.specifiers import Specifier, SpecifierSet, InvalidSpecifier
from packaging.markers import Marker, InvalidMarker, UndefinedComparison, UndefinedEnvironmentName
from packaging.requirements import Requirement, InvalidRequirement
from packaging.utils import (canonicalize_name, is_normalized_name, canonicalize_version, parse_wheel_filename, parse_sdist_filename,
                             InvalidName, InvalidWheelFilename, InvalidSdistFilename)
from packaging.licenses import canonicalize_license_expression, InvalidLicenseExpression
from packaging.metadata import Metadata, InvalidMetadata, parse_email, ExceptionGroup
from packaging._elffile import ELFFile, ELFInvalid

ENV = dict(os_name="posix", sys_platform="linux", python_version="3.12", python_full_version="3.12.1", platform_machine="x86_64",
           platform_release="5.15.0-generic", platform_system="Linux", platform_version="#1 SMP", implementation_name="cpython",
           implementation_version="3.12.1", platform_python_implementation="CPython", extra="Foo_Bar")

def _group_ok(e):
    return isinstance(e, ExceptionGroup) and all(isinstance(x, InvalidMetadata) for x in e.exceptions)

def _metadata_from_email(data, validate):
    try:
        m = Metadata.from_email(data, validate=validate)
    except ExceptionGroup as e:
        if not _group_ok(e): raise TypeError("group member is not InvalidMetadata: %r" % [type(x).__name__ for x in e.exceptions])
        return
    for f in ("metadata_version", "name", "version", "summary", "description_content_type", "keywords", "requires_dist", "requires_python",
              "provides_extra", "project_urls", "dynamic", "license_expression", "license_files", "classifiers", "description"):
        try: getattr(m, f)
        except InvalidMetadata: pass

def _spec_ops(s, item):
    try: sp = Specifier(s)
    except InvalidSpecifier: return
    sp.prereleases; str(sp); hash(sp)
    try:
        sp.contains(item); item in sp; list(sp.filter([item])); sp.contains(item, prereleases=True)
    except InvalidVersion: pass

def _set_ops(s, item):
    try: ss = SpecifierSet(s)
    except InvalidSpecifier: return
    ss.prereleases; str(ss); hash(ss); len(ss)
    try: ss.contains(item); list(ss.filter([item])); ss.contains(item, installed=True)
    except InvalidVersion: pass

def _marker_ops(s):
    try: m = Marker(s)
    except InvalidMarker: return
    str(m); hash(m)
    for env in (ENV, dict(ENV, extra=""), None):
        try: m.evaluate(env)
        except (UndefinedComparison, UndefinedEnvironmentName): pass

def _req_ops(s):
    try: r = Requirement(s)
    except InvalidRequirement: return
    str(r); hash(r)
    if r.marker is not None:
        try: r.marker.evaluate(ENV)
        except (UndefinedComparison, UndefinedEnvironmentName): pass

def _elf(data):
    try:
        f = ELFFile(io.BytesIO(data))
        f.interpreter; f.machine; f.flags
    except ELFInvalid: pass

def _elf_file(data):
    """the same through a real file (what _get_musl_version does): the OS, not BytesIO, answers seek/read at huge offsets"""
    import tempfile, os
    fd, name = tempfile.mkstemp(prefix="verif_elf_")
    try:
        with os.fdopen(fd, "wb") as t: t.write(data)
        with open(name, "rb") as f:
            try:
                e = ELFFile(f)
                e.interpreter; e.machine; e.flags
            except ELFInvalid: pass
    finally:
        os.unlink(name)

def _raise_only(exc, f, *a, **kw):
    try: f(*a, **kw)
    except exc: pass

ENTRIES = {
    "Version": lambda s: _raise_only(InvalidVersion, Version, s),
    "Specifier": lambda s: _spec_ops(s, "1.0"),
    "Specifier.contains": lambda s: _spec_ops(">=1.0", s),
    "Specifier.arbitrary": lambda s: _spec_ops("===" + s, s),
    "SpecifierSet": lambda s: _set_ops(s, "1.0"),
    "SpecifierSet.contains": lambda s: _set_ops(">=1.0,!=1.5", s),
    "Marker": _marker_ops,
    "Requirement": _req_ops,
    "canonicalize_name.validate": lambda s: _raise_only(InvalidName, canonicalize_name, s, validate=True),
    "canonicalize_name": lambda s: canonicalize_name(s),
    "is_normalized_name": lambda s: is_normalized_name(s),
    "canonicalize_version": lambda s: (canonicalize_version(s), canonicalize_version(s, strip_trailing_zero=False)),
    "parse_wheel_filename": lambda s: _raise_only(InvalidWheelFilename, parse_wheel_filename, s),
    "parse_sdist_filename": lambda s: _raise_only(InvalidSdistFilename, parse_sdist_filename, s),
    "canonicalize_license_expression": lambda s: _raise_only(InvalidLicenseExpression, canonicalize_license_expression, s),
    "parse_email.str": lambda s: parse_email(s),
    "parse_email.bytes": lambda s: parse_email(s.encode("latin-1")),
    "Metadata.from_email.str": lambda s: (_metadata_from_email(s, True), _metadata_from_email(s, False)),
    "Metadata.from_email.bytes": lambda s: (_metadata_from_email(s.encode("latin-1"), True), _metadata_from_email(s.encode("latin-1"), False)),
    "ELFFile": lambda s: _elf(s.encode("latin-1")),
    "ELFFile.file": lambda s: _elf_file(s.encode("latin-1")),
}

def observe(cmd, args):
    if cmd.startswith("v."):
        import version_impl; return version_impl.observe(cmd, args)
    if cmd.startswith("sp."):
        import spec_impl; return spec_impl.observe(cmd, args)
    if cmd.startswith("n."):
        import names_impl; return names_impl.observe(cmd, args)
    if cmd.startswith("f."):
        import files_impl; return files_impl.observe(cmd, args)
    if cmd.startswith("l."):
        import lic_impl; return lic_impl.observe(cmd, args)
    if cmd == "law.exc":
        entry, s = args
        try:
            ENTRIES[entry](s)
        except RecursionError:
            # nesting depth is bounded by the interpreter's recursion budget (excluded by the property) - but only NESTING: a long flat input is not deep
            depth = cur = 0
            for ch in s:
                if ch == "(": cur += 1; depth = max(depth, cur)
                elif ch == ")": cur = max(cur - 1, 0)
            if depth < 100: return "escaped: RecursionError from %s on an input nested only %d deep (length %d)" % (entry, depth, len(s))
            return "ok"
        except BaseException as e:
            return "escaped: %s from %s" % (type(e).__name__, entry)
        return "ok"
    if cmd == "law.exc.raw":
        # Metadata.from_raw on a JSON-encoded raw dict
        import json
        d = json.loads(args[0])
        for validate in (True, False):
            try:
                m = Metadata.from_raw(d, validate=validate)
            except ExceptionGroup as e:
                if not _group_ok(e): return "escaped: group member %r" % [type(x).__name__ for x in e.exceptions]
                continue
            except BaseException as e:
                return "escaped: %s from Metadata.from_raw(validate=%s)" % (type(e).__name__, validate)
            for f in d:
                if isinstance(f, str) and f.isidentifier() and not f.startswith("_") and f in ("metadata_version", "name", "version", "summary", "description_content_type", "keywords", "requires_dist", "requires_python", "provides_extra", "project_urls", "dynamic", "license_expression", "license_files", "classifiers", "description", "platforms", "supported_platforms", "home_page", "download_url", "author", "author_email", "maintainer", "maintainer_email", "license", "requires", "provides", "obsoletes", "requires_external", "provides_dist", "obsoletes_dist"):
                    try: getattr(m, f)
                    except InvalidMetadata: pass
                    except BaseException as e: return "escaped: %s from Metadata.%s" % (type(e).__name__, f)
        return "ok"
    raise KeyError(cmd)
