"""Implementation-side observations of the name domain (C13): canonicalize_name, is_normalized_name."""
import os, re
from packaging.utils import canonicalize_name, is_normalized_name, InvalidName

def b(x): return "T" if x else "F"

def validates(s):
    try:
        return canonicalize_name(s, validate=True)
    except InvalidName:
        return None

def observe(cmd, args):
    if cmd == "n.name":
        s = args[0]
        c = canonicalize_name(s)
        v = validates(s)
        if v is not None and v != c: return "validate=True returned a different value: %r" % v
        n = is_normalized_name(s)
        if n is not True and n is not False: return "is_normalized_name did not return a bool"
        return "|".join([b(v is not None), b(n), c])
    if cmd == "n.lower": return args[0].lower()
    if cmd == "n.re": return "|".join([b(validates(args[0]) is not None), b(is_normalized_name(args[0]))])     # the two .match patterns, through the public entry points
    if cmd == "law.n.pair": return law_pair(args[0], args[1])
    if cmd == "law.n.allcp": return law_allcp(args[0])
    if cmd == "law.n.lowertable": return law_lowertable()
    raise KeyError(cmd)


# ---- independent reading of the statement (used only by the law cases) ----
SEPS = "-_."

def fold(n):
    """The folding of the statement: every maximal run of '-', '_', '.' becomes one '-', every other character is lower-cased
    (character by character; U+03A3 is the one code point whose lower-casing depends on the context: see sig())."""
    out = []; i = 0
    while i < len(n):
        if n[i] in SEPS:
            while i < len(n) and n[i] in SEPS: i += 1
            out.append("-")
        else:
            out.append(n[i].lower()); i += 1
    return "".join(out)

def alnum(c): return ("a" <= c <= "z") or ("A" <= c <= "Z") or ("0" <= c <= "9")
def valid_spec(n): return len(n) > 0 and alnum(n[0]) and alnum(n[-1]) and all(alnum(c) or c in SEPS for c in n)

SIGMA = "\u03a3"
def sig(s, k):
    """With U+03A3 in the input, str.lower() yields U+03C2 or U+03C3 for it depending on the neighbours (Final_Sigma): compare up to that
    choice (the statement's folding is per character; theorem C13x_canon_folds_sigma has the same shape)."""
    return k.replace("\u03c2", "\u03c3") if SIGMA in s else k

def law_pair(a, c):
    ca, cc = canonicalize_name(a), canonicalize_name(c)
    for s, k in ((a, ca), (c, cc)):
        if sig(s, k) != sig(s, fold(s)): return "canonical form is not the run-collapsed lower-cased name: %r -> %r" % (s, k)
        if SIGMA in k: return "U+03A3 survives in the canonical form of %r" % s
        if canonicalize_name(k) != k: return "not idempotent on %r" % s
        v = validates(s) is not None
        if v != valid_spec(s): return "validate=True %s %r" % ("accepts" if v else "rejects", s)
        n = is_normalized_name(s)
        if n != (valid_spec(s) and k == s): return "is_normalized_name(%r) = %r but valid=%r, fixed point=%r" % (s, n, valid_spec(s), k == s)
        if v and not is_normalized_name(k): return "canonical form of the valid name %r is not normalized" % s
    if SIGMA in a or SIGMA in c: return "ok"      # clause 3 is about the per-character folding: strings with U+03A3 are outside it
    if (ca == cc) != (fold(a) == fold(c)): return "canonical forms %s: %r %r" % ("differ for equal foldings" if fold(a) == fold(c) else "conflate", a, c)
    return "ok"

def law_allcp(ctx):
    """One code point c in a fixed ASCII context, for every code point: acceptance depends on c exactly as the character partition says."""
    for cp in range(0x110000):
        c = chr(cp)
        s = ctx.format(c)
        v = validates(s) is not None
        if v != valid_spec(s): return "validate=True %s %r" % ("accepts" if v else "rejects", s)
        n = is_normalized_name(s)
        k = canonicalize_name(s)
        if n != (v and k == s): return "is_normalized_name(%r) = %r" % (s, n)
        if canonicalize_name(k) != k: return "not idempotent on %r" % s
        if v and not is_normalized_name(k): return "canonical form of the valid name %r is not normalized" % s
        if sig(s, k) != sig(s, fold(s)): return "canonical form of %r" % s
    return "ok"

GEN = os.path.join(os.path.dirname(os.path.abspath(__file__)), "..", "..", "coq", "Gen")

def gen_table(fname, name, arity):
    """A generated Coq table as Python data: the text between `Definition name ... := [` and `].`."""
    src = open(os.path.join(GEN, fname)).read()
    m = re.search(r"Definition %s :[^\n]*:= \[(.*?)\n\]\." % name, src, re.S)
    if arity == "lower": return {int(a): "".join(chr(int(x)) for x in b.split(";")) for a, b in re.findall(r"\((\d+), \[([0-9; ]*)\]\)", m.group(1))}
    return [tuple(int(x) for x in t.split(",")) for t in re.findall(r"\(([0-9, ]+)\)", m.group(1))]

def in_ranges(cp, rs):
    return any(r[0] <= cp <= r[1] for r in rs)

def law_lowertable():
    """The lower-casing facts the C13 theorems rest on, for every code point of the running interpreter:
       (a) the generated table coq/Gen/LowerTable.v IS chr(c).lower() (and the restricted table of Names.canon_name is exact where it claims);
       (b) the three hypotheses of NamesLower: never empty; a non-separator lower-cases to non-separators that lower() leaves fixed;
           on [A-Za-z0-9._-] it is the ASCII lower-casing;
       (c) the two classes read by the Final_Sigma rule, by probing str.lower() after AND before U+03A3."""
    tab = gen_table("LowerTable.v", "lower_table", "lower")
    cased = gen_table("LowerTable.v", "sig_cased_ranges", 2); ign = gen_table("LowerTable.v", "sig_ign_ranges", 2)
    flat_c = set(); flat_i = set()
    for lo, hi in cased: flat_c.update(range(lo, hi + 1))
    for lo, hi in ign: flat_i.update(range(lo, hi + 1))
    for cp in range(0x110000):
        c = chr(cp); l = c.lower()
        want = tab.get(cp, c) if cp >= 128 else (chr(cp + 32) if "A" <= c <= "Z" else c)
        if l != want: return "U+%04X lower-cases to %r, generated table says %r" % (cp, l, want)
        if cp >= 128 and cp in tab and tab[cp] == c: return "U+%04X: redundant table entry" % cp
        if not l: return "U+%04X lower-cases to the empty string" % cp
        if c not in SEPS:
            for d in l:
                if d in SEPS or d.lower() != d: return "U+%04X lower-cases to %r, which is not a separator-free fixed point" % (cp, l)
        has_ascii = any(ord(x) < 128 for x in l)
        if cp == 0x130:
            if l != "i\u0307": return "U+0130 lower-cases to %r" % l
        elif cp == 0x212A:
            if l != "k": return "U+212A lower-cases to %r" % l
        elif cp >= 128 and has_ascii: return "U+%04X lower-cases to %r" % (cp, l)
        a = ("a" + SIGMA + c).lower()[1] == "\u03c3"; b2 = ("a" + SIGMA + c + "a").lower()[1] == "\u03c3"
        if a != (cp in flat_c): return "U+%04X: cased-and-not-ignorable class differs from the generated table" % cp
        if (b2 and not a) != (cp in flat_i): return "U+%04X: case-ignorable class differs from the generated table" % cp
        before = ("a" + c + SIGMA).lower()[-1] == "\u03c2"      # before side: final after a cased letter, skipping case-ignorables
        if before != (cp in flat_c or cp in flat_i): return "U+%04X before U+03A3: final-sigma is %r, the generated classes say %r" % (cp, before, not before)
    return "ok"
