"""Implementation-side observations of the name domain (C13): canonicalize_name, is_normalized_name."""
from packaging.utils import canonicalize_name, is_normalized_name, InvalidName

def b(x): return "T" if x else "F"

def validates(s):
    try:
        return canonicalize_name(s, validate=True)
    except InvalidName:
        return None

def observe(cmd, args):
    if cmd == "n.name":
        s = args[0]
        c = canonicalize_name(s)
        v = validates(s)
        if v is not None and v != c: return "validate=True returned a different value: %r" % v
        n = is_normalized_name(s)
        if n is not True and n is not False: return "is_normalized_name did not return a bool"
        return "|".join([b(v is not None), b(n), c])
    if cmd == "law.n.pair": return law_pair(args[0], args[1])
    if cmd == "law.n.allcp": return law_allcp(args[0])
    if cmd == "law.n.lowertable": return law_lowertable()
    raise KeyError(cmd)


# ---- independent reading of the statement (used only by the law cases) ----
SEPS = "-_."

def fold(n):
    """The folding of the statement: every maximal run of '-', '_', '.' becomes one '-', every other character is lower-cased
    (character by character: the context-dependent final-sigma rule of str.lower is outside the checked domain)."""
    out = []; i = 0
    while i < len(n):
        if n[i] in SEPS:
            while i < len(n) and n[i] in SEPS: i += 1
            out.append("-")
        else:
            out.append(n[i].lower()); i += 1
    return "".join(out)

def alnum(c): return ("a" <= c <= "z") or ("A" <= c <= "Z") or ("0" <= c <= "9")
def valid_spec(n): return len(n) > 0 and alnum(n[0]) and alnum(n[-1]) and all(alnum(c) or c in SEPS for c in n)

def law_pair(a, c):
    ca, cc = canonicalize_name(a), canonicalize_name(c)
    for s, k in ((a, ca), (c, cc)):
        if k != fold(s): return "canonical form is not the run-collapsed lower-cased name: %r -> %r" % (s, k)
        if canonicalize_name(k) != k: return "not idempotent on %r" % s
        v = validates(s) is not None
        if v != valid_spec(s): return "validate=True %s %r" % ("accepts" if v else "rejects", s)
        n = is_normalized_name(s)
        if n != (valid_spec(s) and k == s): return "is_normalized_name(%r) = %r but valid=%r, fixed point=%r" % (s, n, valid_spec(s), k == s)
        if v and not is_normalized_name(k): return "canonical form of the valid name %r is not normalized" % s
    if (ca == cc) != (fold(a) == fold(c)): return "canonical forms %s: %r %r" % ("differ for equal foldings" if fold(a) == fold(c) else "conflate", a, c)
    return "ok"

def law_allcp(ctx):
    """One code point c in a fixed ASCII context, for every code point: acceptance depends on c exactly as the character partition says."""
    for cp in range(0x110000):
        c = chr(cp)
        s = ctx.format(c)
        v = validates(s) is not None
        if v != valid_spec(s): return "validate=True %s %r" % ("accepts" if v else "rejects", s)
        n = is_normalized_name(s)
        k = canonicalize_name(s)
        if n != (v and k == s): return "is_normalized_name(%r) = %r" % (s, n)
        if cp == 0x3A3: continue      # capital sigma: lower-casing depends on the context (not modelled, trusted base)
        if k != fold(s): return "canonical form of %r" % s
    return "ok"

def law_lowertable():
    """The model's str.lower() table: among non-ASCII code points only U+0130 and U+212A lower-case to text with an ASCII character."""
    for cp in range(128, 0x110000):
        l = chr(cp).lower()
        has_ascii = any(ord(x) < 128 for x in l)
        if cp == 0x130:
            if l != "i\u0307": return "U+0130 lower-cases to %r" % l
        elif cp == 0x212A:
            if l != "k": return "U+212A lower-cases to %r" % l
        elif has_ascii: return "U+%04X lower-cases to %r" % (cp, l)
    for cp in range(128):
        c = chr(cp)
        if c.lower() != (chr(cp + 32) if "A" <= c <= "Z" else c): return "ASCII %r lower-cases to %r" % (c, c.lower())
    return "ok"
