"""Implementation-side observations of the platform-tag domain (C16).

The real generators are called through their signatures (`_manylinux.platform_tags(archs)`, `_musllinux.platform_tags(archs)`,
`mac_platforms(version, arch)`, `ios_platforms(version, multiarch)`, `ELFFile(io.BytesIO(...))`, `platform_tags()`); the probes they
make are steered only through the standard library: os.confstr, a stand-in `ctypes` module in sys.modules, sys.executable
pointing at a generated file, a synthetic `_manylinux` module in sys.modules, subprocess.run, platform.mac_ver/system/ios_ver,
sys.implementation, sysconfig.get_platform.  Memoised probes are reset by calling cache_clear() on whatever module attributes
expose it.  No private name of `packaging` is assigned to."""
import atexit, contextlib, io, os, platform, re, shutil, subprocess, sys, sysconfig, tempfile, types, warnings
from packaging import tags, _manylinux, _musllinux, _elffile
from packaging._elffile import ELFFile, ELFInvalid
from tags_impl import patched, plist, _MISSING

warnings.simplefilter("ignore")
_TMP = tempfile.mkdtemp(prefix="verif_c16_")
_EXE = os.path.join(_TMP, "python")
atexit.register(shutil.rmtree, _TMP, True)


def clear_caches():
    for m in (tags, _manylinux, _musllinux, _elffile):
        for v in list(vars(m).values()):
            cc = getattr(v, "cache_clear", None)
            if callable(cc): cc()


def s2b(s):
    return s.encode("latin-1")


TRUTH = {"T": True, "F": False, "N": None, "O": 1, "Z": 0}


def make_policy(desc):
    """'-' | 'M' a1 a2010 a2014 [':' default (';' M.m.arch=c)*]  ->  module or None"""
    if desc == "-" or desc[:1] != "M": return None
    mod = types.ModuleType("_manylinux")
    for name, c in zip(("manylinux1_compatible", "manylinux2010_compatible", "manylinux2014_compatible"), desc[1:4]):
        if c != "-": setattr(mod, name, TRUTH[c])
    rest = desc[4:]
    if len(rest) >= 2:
        default = TRUTH[rest[1]]
        rules = []
        for r in rest[2:].split(";")[1:]:
            parts = r.split("=")
            if len(parts) != 2 or not parts[1]: continue
            lhs = parts[0].split(".")
            if len(lhs) != 3: continue
            rules.append((int(lhs[0] or 0), int(lhs[1] or 0), lhs[2], TRUTH[parts[1][0]]))

        def manylinux_compatible(major, minor, arch):
            for M, m, a, res in rules:
                if M == major and m == minor and (a == "*" or a == arch): return res
            return default
        mod.manylinux_compatible = manylinux_compatible
    return mod


class _Sym:
    def __init__(self, value): self.value, self.restype = value, None
    def __call__(self): return self.value


def make_ctypes(desc):
    if desc[:1] not in "OASB" or not desc: return None          # None in sys.modules -> ImportError
    mod = types.ModuleType("ctypes")
    mod.c_char_p = object()
    k, text = desc[0], desc[1:]

    def CDLL(name):
        if k == "O": raise OSError("dlopen failed")
        ns = types.SimpleNamespace()
        if k in "SB": ns.gnu_get_libc_version = _Sym(text if k == "S" else text.encode("ascii"))
        return ns
    mod.CDLL = CDLL
    return mod


def make_confstr(desc):
    k, text = desc[:1], desc[1:]
    if k == "S": return lambda name: text
    if k == "N": return lambda name: None
    if text[:1] == "A": return _MISSING                          # no os.confstr at all -> AttributeError
    exc = ValueError if text[:1] == "V" else OSError

    def confstr(name): raise exc("confstr")
    return confstr


def fs_bytes(s):
    return os.fsencode(s).decode("latin-1")


@contextlib.contextmanager
def linux_env(confstr="RO", ctypes_="I", exe="X", policy="-", stderr="", calls=None, loaders="*", stdout=None, exe_name="python", clear=True):
    """loaders: which loader paths exist for subprocess.run: '*' / '' = every NUL-free path, else ',path1,path2' (bytes as latin-1).
    The stand-in for subprocess.run raises what the real one raises for such an argv: ValueError for an embedded NUL,
    FileNotFoundError for a path that does not exist (_get_musl_version catches both and answers None)."""
    path = os.path.join(_TMP, exe_name)
    if exe[:1] == "F":
        with open(path, "wb") as f: f.write(s2b(exe[1:]))
    else:                                      # no such file (the path stays the same: the musl probe is memoised by path)
        with contextlib.suppress(FileNotFoundError): os.unlink(path)
    existing = None if loaders in ("", "*") or loaders[:1] == "*" else plist(loaders)

    def run(argv, **kw):
        if calls is not None: calls.append(argv)
        prog = argv[0]
        if "\0" in prog: raise ValueError("embedded null byte")
        if "check" not in kw and existing is not None and fs_bytes(prog) not in existing:      # the musl loader call (mac_platforms re-runs sys.executable with check=True)
            raise FileNotFoundError(2, "No such file or directory", prog)
        return types.SimpleNamespace(stderr=stderr, stdout=stderr if stdout is None else stdout, returncode=0, args=argv)

    with contextlib.ExitStack() as st:
        st.enter_context(patched(os, "confstr", make_confstr(confstr)))
        st.enter_context(patched(sys, "executable", path))
        st.enter_context(patched(subprocess, "run", run))
        saved = {k: sys.modules.get(k, _MISSING) for k in ("ctypes", "_manylinux")}
        sys.modules["ctypes"] = make_ctypes(ctypes_)
        pm = make_policy(policy)
        if pm is None: sys.modules.pop("_manylinux", None); sys.modules["_manylinux"] = None
        else: sys.modules["_manylinux"] = pm
        if clear: clear_caches()
        try:
            yield
        finally:
            for k, v in saved.items():
                if v is _MISSING: sys.modules.pop(k, None)
                else: sys.modules[k] = v
            if clear: clear_caches()


def obs_elf(data, f=None):
    try:
        e = ELFFile(io.BytesIO(data) if f is None else f)
    except ELFInvalid:
        return "E"
    try:
        i = e.interpreter
        i = "N" if i is None else "S" + fs_bytes(i)
    except ELFInvalid:
        i = "E"
    return "|".join([str(int(e.capacity)), str(int(e.encoding)), str(int(e.machine)), str(int(e.flags)), i])


def many(archs, M, m, policy="-", exe="X"):
    with linux_env("Sglibc %d.%d" % (M, m), "I", exe, policy):
        return list(_manylinux.platform_tags(archs))


def check_seq(name, seq, key, limit, nodup=True):
    """no duplicates, nothing newer than `limit`"""
    if nodup and len(set(seq)) != len(seq): return name + ": repeated tag"
    for t in seq:
        v = key(t)
        if v is not None and v > limit: return "%s: %s is newer than the running system %r" % (name, t, limit)
    return None


def many_ver(t):
    m = re.match(r"manylinux_(\d+)_(\d+)_", t)
    if m: return (int(m.group(1)), int(m.group(2)))
    m = re.match(r"manylinux(1|2010|2014)_", t)
    return {"1": (2, 5), "2010": (2, 12), "2014": (2, 17)}[m.group(1)] if m else None


def observe(cmd, args):
    if cmd == "p.elf":
        return obs_elf(s2b(args[0]))
    if cmd == "p.many":
        archs, confstr, ctypes_, exe, policy = args
        with linux_env(confstr, ctypes_, exe, policy):
            return ",".join(_manylinux.platform_tags(plist(archs)))
    if cmd == "p.musl":
        archs, exe, stderr = args[:3]
        loaders = args[3] if len(args) > 3 else "*"          # args[4:6] = the limits of the file system / memory: model side only
        calls = []
        with linux_env(exe=exe, stderr=stderr, calls=calls, loaders=loaders):
            out = ",".join(_musllinux.platform_tags(plist(archs)))
        ld = "-" if not calls else "S" + fs_bytes(calls[0][0])
        return out + "|" + ld
    if cmd == "p.muslreal":
        # the REAL subprocess.run: sys.executable names a relative loader path below the scratch directory; what is there is set up from
        # the case's loader list: the listed path is an executable script printing the case's banner on stderr, ./ld-musl-noexec.sh is a
        # file without the x bit, ./ld-musl-dir.sh a directory, anything else is missing
        archs, exe, stderr, loaders = args[:4]
        cwd = os.getcwd()
        root = os.path.join(_TMP, "real")
        shutil.rmtree(root, True); os.makedirs(root)
        with open(os.path.join(root, "banner"), "wb") as f: f.write(stderr.encode("utf-8", "surrogatepass"))
        for name in plist(loaders):
            if "\0" in name or not name.startswith("./"): continue
            with open(os.path.join(root, name[2:]), "w") as f: f.write("#!/bin/sh\ncat banner >&2\n")
            os.chmod(os.path.join(root, name[2:]), 0o755)
        with open(os.path.join(root, "ld-musl-noexec.sh"), "w") as f: f.write("#!/bin/sh\ncat banner >&2\n")
        os.chmod(os.path.join(root, "ld-musl-noexec.sh"), 0o644)
        os.mkdir(os.path.join(root, "ld-musl-dir.sh"))
        path = os.path.join(root, "python")
        with open(path, "wb") as f: f.write(s2b(exe[1:]))
        os.chdir(root)
        clear_caches()
        try:
            with patched(sys, "executable", path):
                return ",".join(_musllinux.platform_tags(plist(archs)))
        finally:
            os.chdir(cwd); clear_caches()
    if cmd == "p.elff":
        path = os.path.join(_TMP, "image")
        with open(path, "wb") as f: f.write(s2b(args[0]))
        with open(path, "rb") as f:
            return obs_elf(None, f)
    if cmd == "p.probes":
        archs, rest = plist(args[0]), args[1:]
        out = []
        clear_caches()
        try:
            for k in range(0, len(rest) - 5, 6):
                key, confstr, ctypes_, exe, policy, stderr = rest[k:k + 6]
                with linux_env(confstr, ctypes_, exe, policy, stderr, exe_name="python_" + key, clear=False):
                    many_s = ",".join(_manylinux.platform_tags(archs))
                    musl = ",".join(_musllinux.platform_tags(archs))
                out.append(many_s + "|" + musl)
        finally:
            clear_caches()
        return ";".join(out)
    if cmd == "p.mac":
        return ",".join(tags.mac_platforms((int(args[0]), int(args[1])), args[2]))
    if cmd == "p.macdef":
        ver, cpu, sub = args
        with patched(platform, "mac_ver", lambda: (ver, ("", "", ""), cpu)), \
             patched(subprocess, "run", lambda argv, **kw: types.SimpleNamespace(stdout=sub, stderr="", returncode=0)):
            return ",".join(tags.mac_platforms())
    if cmd == "p.ios":
        return ",".join(tags.ios_platforms((int(args[0]), int(args[1])), args[2]))
    if cmd == "p.linux":
        is32, plat, confstr, ctypes_, exe, policy, stderr = args[:7]
        loaders = args[7] if len(args) > 7 else "*"
        with linux_env(confstr, ctypes_, exe, policy, stderr, loaders=loaders), patched(sysconfig, "get_platform", lambda: plat):
            return ",".join(tags._linux_platforms(is32 == "T"))
    if cmd == "p.plat":
        system, plat, confstr, ctypes_, exe, policy, stderr, macver, cpu, sub, iosrel, multiarch = args[:12]
        loaders = args[12] if len(args) > 12 else "*"
        with linux_env(confstr, ctypes_, exe, policy, stderr, loaders=loaders, stdout=sub), patched(sysconfig, "get_platform", lambda: plat), \
             patched(platform, "system", lambda: system), patched(platform, "mac_ver", lambda: (macver, ("", "", ""), cpu)), \
             patched(platform, "ios_ver", lambda: ("iOS", iosrel, "iPhone", False)), \
             patched(sys, "implementation", types.SimpleNamespace(name="cpython", _multiarch=multiarch)):
            return ",".join(tags.platform_tags())

    # ---- laws of the statement evaluated directly on the implementation ----
    if cmd == "law.p.many":
        archs, M, m, m2, policy, exe = args
        archs, M, m, m2 = plist(archs), int(M), int(m), int(m2)
        lo, hi = many(archs, M, m, policy, exe), many(archs, M, m2, policy, exe)
        for seq, lim in ((lo, (M, m)), (hi, (M, m2))):
            r = check_seq("manylinux", seq, many_ver, lim, len(set(archs)) == len(archs))
            if r: return r
            for a in (set(archs) if len(set(archs)) == len(archs) else ()):
                vs = [(many_ver(t), t.startswith("manylinux_")) for t in seq if t.endswith("_" + a) and many_ver(t)]
                for (v1, p1), (v2, p2) in zip(vs, vs[1:]):
                    if not (v1 > v2 or (v1 == v2 and p1 and not p2)): return "manylinux: not newest-first / alias not right after its PEP 600 tag: %r" % (seq,)
            floor = (2, 5) if set(archs) & {"x86_64", "i686"} else (2, 17)
            if any(many_ver(t) < floor and many_ver(t)[0] == 2 for t in seq): return "manylinux: tag below the floor"
        if m <= m2 and not set(lo) <= set(hi): return "manylinux: glibc %d.%d offers a tag that %d.%d does not" % (M, m, M, m2)
        if policy == "-" and lo and len(archs) == 1:
            exp = []
            for v in [(M, x) for x in range(m, -1, -1)] + [(MM, x) for MM in range(M - 1, 1, -1) for x in range(50, -1, -1)]:
                if v[0] == 2 and v < floor: continue
                exp.append("manylinux_%d_%d_%s" % (v + (archs[0],)))
                if v in ((2, 17), (2, 12), (2, 5)): exp.append({17: "manylinux2014", 12: "manylinux2010", 5: "manylinux1"}[v[1]] + "_" + archs[0])
            if lo != exp: return "manylinux: sequence differs from the statement's enumeration"
        return "ok"
    if cmd == "law.p.many2":
        # the TEXT of the statement, not the code's reading: floor per ARCHITECTURE (2.5 on x86_64/i686, 2.17 elsewhere), a newer glibc
        # (any major) offers a superset, exact enumeration per architecture
        archs, M, m, M2, m2, policy, exe = args
        archs, M, m, M2, m2 = plist(archs), int(M), int(m), int(M2), int(m2)
        lo, hi = many(archs, M, m, policy, exe), many(archs, M2, m2, policy, exe)
        distinct = len(set(archs)) == len(archs)
        for seq, lim in ((lo, (M, m)), (hi, (M2, m2))):
            r = check_seq("manylinux", seq, many_ver, lim, distinct)
            if r: return r
            for t in seq:
                a = next((x for x in sorted(set(archs), key=len, reverse=True) if t.endswith("_" + x)), None)
                floor = (2, 5) if a in ("x86_64", "i686") else (2, 17)
                if many_ver(t)[0] == 2 and many_ver(t) < floor: return "manylinux: tag below the per-architecture floor: " + t
        if (M, m) <= (M2, m2) and not set(lo) <= set(hi):
            return "manylinux: glibc %d.%d offers a tag that %d.%d does not: %s" % (M, m, M2, m2, sorted(set(lo) - set(hi))[0])
        if policy == "-" and lo and distinct:
            exp = []
            for a in archs:
                floor = (2, 5) if a in ("x86_64", "i686") else (2, 17)
                for v in [(M, x) for x in range(m, -1, -1)] + [(MM, x) for MM in range(M - 1, 1, -1) for x in range(50, -1, -1)]:
                    if v[0] == 2 and v < floor: continue
                    exp.append("manylinux_%d_%d_%s" % (v + (a,)))
                    if v in ((2, 17), (2, 12), (2, 5)): exp.append({17: "manylinux2014", 12: "manylinux2010", 5: "manylinux1"}[v[1]] + "_" + a)
            if lo != exp: return "manylinux: sequence differs from the statement's enumeration (per-architecture floor)"
        return "ok"
    if cmd == "law.p.noraise":
        # _musllinux.platform_tags(archs) yields a (possibly empty) sequence whatever sys.executable holds and whatever loader it names
        archs, exe, stderr, loaders = args
        with linux_env(exe=exe, stderr=stderr, loaders=loaders):
            try:
                list(_musllinux.platform_tags(plist(archs)))
            except Exception as e:
                return "musllinux platform_tags raised " + type(e).__name__
        return "ok"
    if cmd == "law.p.mac":
        M, m, M2, m2, arch = int(args[0]), int(args[1]), int(args[2]), int(args[3]), args[4]
        key = lambda t: tuple(map(int, t.split("_")[1:3]))
        lo, hi = list(tags.mac_platforms((M, m), arch)), list(tags.mac_platforms((M2, m2), arch))
        for seq, lim in ((lo, (M, m)), (hi, (M2, m2))):
            r = check_seq("macOS", seq, key, lim)
            if r: return r
            vs = [key(t) for t in seq]
            if any(a < b for a, b in zip(vs, vs[1:])): return "macOS: not newest-first"
        same_regime = (M == M2 == 10 and m <= m2) or (11 <= M <= M2)
        if same_regime and not set(lo) <= set(hi): return "macOS: %d.%d offers a tag that %d.%d does not" % (M, m, M2, m2)
        return "ok"
    if cmd == "law.p.ios":
        M, m, M2, m2, ma = int(args[0]), int(args[1]), int(args[2]), int(args[3]), args[4]
        key = lambda t: tuple(map(int, t.split("_")[1:3]))
        lo, hi = list(tags.ios_platforms((M, m), ma)), list(tags.ios_platforms((M2, m2), ma))
        for seq, lim in ((lo, (M, m)), (hi, (M2, m2))):
            r = check_seq("iOS", seq, key, lim)
            if r: return r
            vs = [key(t) for t in seq]
            if any(a <= b for a, b in zip(vs, vs[1:])): return "iOS: not strictly newest-first"
            if M >= 12 and (not seq or seq[0] != "ios_%d_%d_%s" % (M, m, ma.replace("-", "_"))) and seq is lo: return "iOS: running version not first"
            if any(key(t) < (12, 0) for t in seq): return "iOS: below the 12.0 floor"
        # the text: a newer system offers a superset (no guard on the minor; minors above 9 are the finding iOS-minor)
        if (M, m) <= (M2, m2) and not set(lo) <= set(hi): return "iOS: %d.%d offers a tag that %d.%d does not" % (M, m, M2, m2)
        return "ok"
    if cmd == "law.p.musl":
        archs, exe, M, m, m2 = plist(args[0]), args[1], int(args[2]), int(args[3]), int(args[4])
        res = []
        for x in (m, m2):
            with linux_env(exe=exe, stderr="musl libc (x)\nVersion %d.%d.3\nDynamic Program Loader" % (M, x)):
                res.append(list(_musllinux.platform_tags(archs)))
        lo, hi = res
        key = lambda t: tuple(map(int, t.split("_")[1:3]))
        for seq, lim in ((lo, (M, m)), (hi, (M, m2))):
            r = check_seq("musllinux", seq, key, lim, len(set(archs)) == len(archs))
            if r: return r
        if lo and len(set(archs)) == len(archs):
            exp = ["musllinux_%d_%d_%s" % (M, x, a) for a in archs for x in range(m, -1, -1)]
            if lo != exp: return "musllinux: sequence differs from the statement's enumeration"
        if m <= m2 and not set(lo) <= set(hi): return "musllinux: %d.%d offers a tag that %d.%d does not" % (M, m, M, m2)
        return "ok"
    if cmd == "law.p.elf":
        data, cap, enc, machine, flags, interp = args
        got = obs_elf(s2b(data))
        want = "|".join([cap, enc, machine, flags, interp])
        return "ok" if got == want else "ELF decode differs from what the encoder laid out: got %r want %r" % (got[:80], want[:80])
    if cmd == "law.p.cache":
        # the memoised glibc probe: a second call sees the first answer even if the environment changed; cache_clear() re-probes
        archs, M, m, M2, m2 = plist(args[0]), int(args[1]), int(args[2]), int(args[3]), int(args[4])
        with linux_env("Sglibc %d.%d" % (M, m)):
            a = list(_manylinux.platform_tags(archs))
            b = list(_manylinux.platform_tags(archs))
            with patched(os, "confstr", lambda name: "glibc %d.%d" % (M2, m2)):
                c = list(_manylinux.platform_tags(archs))
                clear_caches()
                d = list(_manylinux.platform_tags(archs))
        if a != b: return "two consecutive calls differ"
        if a != c: return "memoised probe not reused"
        if d != many(archs, M2, m2): return "after cache_clear the sequence is not the fresh one"
        return "ok"
    raise KeyError(cmd)
