"""Generators of the name / filename domain (C13, C14).  Every random choice comes from the rng passed in."""
import itertools

SEPS = "-_."
# Non-ASCII code points the models are exact on: str.lower() leaves them unchanged, except U+0130 -> "i̇" and U+212A -> "k"
# (both carried by the model's table).  Upper-case non-ASCII letters and the final-sigma rule are outside the modelled domain.
NONASCII = ["é", "ſ", "ı", "İ", "K", "١", "１", " ", "ß", "²"]
SEGS = ["a", "b1", "foo", "Bar", "x", "0", "zope", "A9", "Z", "q2w", "INTERFACE", "7", "py"]
NAME_ALPHA = ["a", "B", "0", "-", "_", ".", "\n", "é", "ſ", "K", " ", "İ"]
NAME_ALPHA_ASCII = ["a", "Z", "9", "-", "_", ".", "\n"]
MUT = list("aZ09-_.-_. \n\t/!+@") + NONASCII + ["\x00", "--", "__", "-_", ".-."]


def rand_name(rng, valid_p=0.8):
    """A project name: segments joined by separator runs (runs of length 1-3, mixed), one- and two-character first segments common."""
    parts = [rng.choice(SEGS) for _ in range(rng.choice([1, 1, 2, 2, 3, 4]))]
    s = parts[0]
    for p in parts[1:]:
        run = "".join(rng.choice(SEPS) for _ in range(rng.choice([1, 1, 1, 2, 2, 3])))
        if rng.random() < 0.3: run = rng.choice(SEPS) * len(run)
        s += run + p
    if rng.random() < 0.3: s = s.lower()
    if rng.random() > valid_p: s = damage_name(rng, s)
    return s


def damage_name(rng, s):
    k = rng.random()
    if k < 0.2: return s + rng.choice(["\n", "-", ".", "_", " ", "--"])
    if k < 0.4: return rng.choice(["-", "_", ".", " ", "\n"]) + s
    if k < 0.55 and s: i = rng.randrange(len(s)); return s[:i] + rng.choice(NONASCII) + s[i + 1:]
    if k < 0.7 and s: i = rng.randrange(len(s) + 1); return s[:i] + rng.choice(NONASCII + [" ", "\n", "/", "!"]) + s[i:]
    return mutate(rng, s)


def mutate(rng, s, chars=MUT):
    s = list(s)
    for _ in range(rng.choice([1, 1, 2])):
        k = rng.random(); i = rng.randrange(len(s) + 1)
        if k < 0.3 and s: del s[min(i, len(s) - 1)]
        elif k < 0.65: s.insert(i, rng.choice(chars))
        elif k < 0.75 and s: s.insert(i, s[min(i, len(s) - 1)])
        elif k < 0.85 and len(s) > 1:
            j = min(i, len(s) - 2); s[j], s[j + 1] = s[j + 1], s[j]
        elif s: s[min(i, len(s) - 1)] = rng.choice(chars)
    return "".join(s)


def respell_name(rng, s):
    """Another spelling with the same PEP 503 canonical form: other separator runs, other ASCII case."""
    out = []; i = 0
    while i < len(s):
        if s[i] in SEPS:
            while i < len(s) and s[i] in SEPS: i += 1
            out.append("".join(rng.choice(SEPS) for _ in range(rng.choice([1, 1, 2, 3]))))
        else:
            c = s[i]; i += 1
            if c.isascii() and c.isalpha() and rng.random() < 0.4: c = c.swapcase()
            out.append(c)
    return "".join(out)


def near_name(rng, s):
    """A name that usually has a different canonical form: a separator run removed / inserted, a character changed."""
    k = rng.random()
    if k < 0.3:
        for sep in SEPS: 
            if sep in s: return s.replace(sep, "", 1)
    if k < 0.6 and len(s) > 1:
        i = rng.randrange(1, len(s)); return s[:i] + rng.choice(SEPS) + s[i:]
    if s:
        i = rng.randrange(len(s)); return s[:i] + rng.choice("ab01") + s[i + 1:]
    return s + "a"


def exhaustive(alphabet, maxlen):
    for n in range(maxlen + 1):
        for t in itertools.product(alphabet, repeat=n):
            yield "".join(t)
