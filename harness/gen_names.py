"""Generators of the name / filename domain (C13, C14).  Every random choice comes from the rng passed in."""
import itertools

SEPS = "-_."
# Non-ASCII code points the models are exact on: str.lower() leaves them unchanged, except U+0130 -> "i̇" and U+212A -> "k"
# (both carried by the model's table).  Upper-case non-ASCII letters and the final-sigma rule are outside the modelled domain.
NONASCII = ["é", "ſ", "ı", "İ", "K", "١", "１", " ", "ß", "²"]
SEGS = ["a", "b1", "foo", "Bar", "x", "0", "zope", "A9", "Z", "q2w", "INTERFACE", "7", "py"]
NAME_ALPHA = ["a", "B", "0", "-", "_", ".", "\n", "é", "ſ", "K", " ", "İ"]
NAME_ALPHA_ASCII = ["a", "Z", "9", "-", "_", ".", "\n"]
MUT = list("aZ09-_.-_. \n\t/!+@") + NONASCII + ["\x00", "--", "__", "-_", ".-."]


def rand_name(rng, valid_p=0.8):
    """A project name: segments joined by separator runs (runs of length 1-3, mixed), one- and two-character first segments common."""
    parts = [rng.choice(SEGS) for _ in range(rng.choice([1, 1, 2, 2, 3, 4]))]
    s = parts[0]
    for p in parts[1:]:
        run = "".join(rng.choice(SEPS) for _ in range(rng.choice([1, 1, 1, 2, 2, 3])))
        if rng.random() < 0.3: run = rng.choice(SEPS) * len(run)
        s += run + p
    if rng.random() < 0.3: s = s.lower()
    if rng.random() > valid_p: s = damage_name(rng, s)
    return s


def damage_name(rng, s):
    k = rng.random()
    if k < 0.2: return s + rng.choice(["\n", "-", ".", "_", " ", "--"])
    if k < 0.4: return rng.choice(["-", "_", ".", " ", "\n"]) + s
    if k < 0.55 and s: i = rng.randrange(len(s)); return s[:i] + rng.choice(NONASCII) + s[i + 1:]
    if k < 0.7 and s: i = rng.randrange(len(s) + 1); return s[:i] + rng.choice(NONASCII + [" ", "\n", "/", "!"]) + s[i:]
    return mutate(rng, s)


def mutate(rng, s, chars=MUT):
    s = list(s)
    for _ in range(rng.choice([1, 1, 2])):
        k = rng.random(); i = rng.randrange(len(s) + 1)
        if k < 0.3 and s: del s[min(i, len(s) - 1)]
        elif k < 0.65: s.insert(i, rng.choice(chars))
        elif k < 0.75 and s: s.insert(i, s[min(i, len(s) - 1)])
        elif k < 0.85 and len(s) > 1:
            j = min(i, len(s) - 2); s[j], s[j + 1] = s[j + 1], s[j]
        elif s: s[min(i, len(s) - 1)] = rng.choice(chars)
    return "".join(s)


def respell_name(rng, s):
    """Another spelling with the same PEP 503 canonical form: other separator runs, other ASCII case."""
    out = []; i = 0
    while i < len(s):
        if s[i] in SEPS:
            while i < len(s) and s[i] in SEPS: i += 1
            out.append("".join(rng.choice(SEPS) for _ in range(rng.choice([1, 1, 2, 3]))))
        else:
            c = s[i]; i += 1
            if c.isascii() and c.isalpha() and rng.random() < 0.4: c = c.swapcase()
            out.append(c)
    return "".join(out)


def near_name(rng, s):
    """A name that usually has a different canonical form: a separator run removed / inserted, a character changed."""
    k = rng.random()
    if k < 0.3:
        for sep in SEPS: 
            if sep in s: return s.replace(sep, "", 1)
    if k < 0.6 and len(s) > 1:
        i = rng.randrange(1, len(s)); return s[:i] + rng.choice(SEPS) + s[i:]
    if s:
        i = rng.randrange(len(s)); return s[:i] + rng.choice("ab01") + s[i + 1:]
    return s + "a"


# Non-ASCII cased letters (C13/C14 exact model: the interpreter's full str.lower() table and the Final_Sigma rule).
# upper / lower / title-case letters, one-to-many lower-casing (U+0130), ASCII image (U+212A), special upper-casing (U+00DF, U+0149), astral
# (Deseret, Adlam), U+03A3 with its two lower-case forms, case-ignorable code points (apostrophe, U+00B7, U+0301, U+02B0 which is also cased).
CASED = ["É", "é", "Ω", "ω", "Ǆ", "ǅ", "ǆ", "ẞ", "ß", "Σ", "σ", "ς", "İ", "ı", "K", "Å", "ŉ", "Ⅷ", "ⓐ", "Ⓐ", "𐐀", "𐐨", "𞤀", "Ａ", "ａ", "Ϊ", "ΐ", "ᾈ", "Ꙁ", "Ⴀ", "ⴀ", "Ა", "ა"]
IGNORABLE = ["'", "·", "\u0301", "ʰ", ":", "\u00ad", "^", "`", "\u2019"]
UNCASED = ["1", "١", "中", " ", "!", "\n", "/"]


def rand_cased_name(rng, sigma=True):
    """A string mixing ASCII segments, separator runs, non-ASCII cased letters and (with sigma) U+03A3 in final / medial / initial
    position with case-ignorable code points around it."""
    pool = CASED if sigma else [c for c in CASED if c != "Σ"]
    out = []
    for _ in range(rng.choice([1, 2, 2, 3, 4, 6])):
        k = rng.random()
        if k < 0.35: out.append(rng.choice(pool))
        elif k < 0.5: out.append(rng.choice(SEGS))
        elif k < 0.65: out.append("".join(rng.choice(SEPS) for _ in range(rng.choice([1, 1, 2, 3]))))
        elif k < 0.8 and sigma: out.append(rng.choice(["", "a", "Ω", "1"]) + rng.choice(["", "'", "·", "."]) + "Σ" + rng.choice(["", "'", ".", "-", "\u0301"]) + rng.choice(["", "a", "Σ", "1", "É"]))
        elif k < 0.9: out.append(rng.choice(IGNORABLE))
        else: out.append(rng.choice(UNCASED))
    return "".join(out)


def respell_cased(rng, s):
    """Another spelling that is equal after the per-character folding: other separator runs; a character replaced by a character with the
    same str.lower() (its lower-casing when that is one character, or its swapcase when that lower-cases back)."""
    out = []; i = 0
    while i < len(s):
        if s[i] in SEPS:
            while i < len(s) and s[i] in SEPS: i += 1
            out.append("".join(rng.choice(SEPS) for _ in range(rng.choice([1, 1, 2, 3]))))
        else:
            c = s[i]; i += 1
            if rng.random() < 0.5:
                cands = [d for d in (c.lower(), c.upper(), c.swapcase(), c.title()) if len(d) == 1 and d.lower() == c.lower()]
                if cands: c = rng.choice(cands)
            out.append(c)
    return "".join(out)


def lower_sweep_points(rng, n_random):
    """Code points for the per-code-point sweep of the model's str.lower() tables: every code point the interpreter lower-cases to
    something else, its image, its neighbours, the boundaries of the interpreter's cased / case-ignorable ranges as seen through
    str.lower(), and a random sample.  Surrogates are left out (they do not survive the text transport)."""
    pts = set()
    for cp in range(128, 0x110000):
        l = chr(cp).lower()
        if l != chr(cp):
            pts.update([cp - 1, cp, cp + 1]); pts.update(ord(x) for x in l)
    prev = None
    for cp in range(0x110000):
        k = ("aΣ" + chr(cp)).lower()[1] + ("aΣ" + chr(cp) + "a").lower()[1]
        if k != prev: pts.update([cp - 1, cp])
        prev = k
    pts.update(rng.randrange(0x110000) for _ in range(n_random))
    return sorted(p for p in pts if 0 <= p < 0x110000 and not 0xD800 <= p <= 0xDFFF)


def table_boundaries():
    """Boundaries (lo-1, lo, hi, hi+1) of every range of the generated tables coq/Gen/WordTable.v and the Final_Sigma classes of
    coq/Gen/LowerTable.v (read as text; the files exist once the build stage has run)."""
    import os, re
    gen = os.path.join(os.path.dirname(os.path.abspath(__file__)), "..", "coq", "Gen")
    pts = set()
    for f, names in (("WordTable.v", ["word_ranges", "digit_ranges"]), ("LowerTable.v", ["sig_cased_ranges", "sig_ign_ranges"])):
        try: src = open(os.path.join(gen, f)).read()
        except OSError: continue
        for name in names:
            m = re.search(r"Definition %s :[^\n]*:= \[(.*?)\n\]\." % name, src, re.S)
            for t in re.findall(r"\(([0-9, ]+)\)", m.group(1) if m else ""):
                lo, hi = [int(x) for x in t.split(",")][:2]
                pts.update([lo - 1, lo, hi, hi + 1])
    return sorted(p for p in pts if 0 <= p < 0x110000 and not 0xD800 <= p <= 0xDFFF)


def category_sample(rng, per_cat, cats=("Nd", "Lu", "Ll", "Lt", "Lm", "Lo", "Nl", "No", "Mn", "Mc", "Me", "Pc", "Pd", "Sk", "Sm", "So", "Zs", "Cf", "Cn", "Co")):
    """A sample of code points of each Unicode general category (as the harness interpreter classifies them; used only to pick inputs)."""
    import unicodedata
    by = {}
    for cp in range(128, 0x110000):
        if 0xD800 <= cp <= 0xDFFF: continue
        c = unicodedata.category(chr(cp))
        if c in cats: by.setdefault(c, []).append(cp)
    out = []
    for c in cats:
        l = by.get(c, [])
        out += l if len(l) <= per_cat else rng.sample(l, per_cat)
    return out


def exhaustive(alphabet, maxlen):
    for n in range(maxlen + 1):
        for t in itertools.product(alphabet, repeat=n):
            yield "".join(t)
