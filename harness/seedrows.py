"""print DESIGN.md table rows (id | property | clause | needs | caught by) for the seeded changes whose id starts with the given prefix"""
import glob, json, os, sys
pre = sys.argv[1]
for d in sorted(glob.glob(os.path.join(os.path.dirname(__file__), "..", "seeded", pre + "*"))):
    m = json.load(open(os.path.join(d, "meta.json")))
    caught = sorted(f[len("caught_by_"):-len(".json")] for f in os.listdir(d) if f.startswith("caught_by_"))
    cl = lambda s: " ".join(str(s).split()).replace("|", "/")[:140]
    print("| %s | %s | %s | %s | %s |" % (os.path.basename(d), m.get("property"), cl(m.get("clause", "")), cl(m.get("needs", "")), ", ".join(caught) or "MISSED"))
