"""Light generators for markers, requirements, tags and specifier sets used by the cross-cutting properties (C10, C11, C20)."""
import gen, gen_spec

VARS = ["python_version", "python_full_version", "os_name", "sys_platform", "platform_release", "platform_system", "platform_version",
        "platform_machine", "platform_python_implementation", "implementation_name", "implementation_version", "extra"]
DOTTED = {"os_name": "os.name", "sys_platform": "sys.platform", "platform_version": "platform.version", "platform_machine": "platform.machine",
          "platform_python_implementation": "platform.python_implementation"}
MOPS = ["==", "!=", "<", "<=", ">", ">=", "~=", "===", "in", "not in"]
LITS = ["posix", "nt", "linux", "win32", "3.8", "3.12", "3.8.1", "2.7", "x86_64", "CPython", "cpython", "Foo_Bar", "foo-bar", "foo.bar", "x", "", "1.0", "5.15", "a b", "a'b", 'a"b', "1.0a1", "Linux"]

def quote(rng, lit):
    if '"' in lit: return "'" + lit + "'"
    if "'" in lit: return '"' + lit + '"'
    return rng.choice(['"%s"', "'%s'"]) % lit

def ws(rng): return rng.choice(["", " ", " ", "  ", "\t"])

def atom(rng):
    v = rng.choice(VARS)
    vtxt = DOTTED[v] if v in DOTTED and rng.random() < 0.2 else v
    op = rng.choice(MOPS)
    lit = quote(rng, rng.choice(LITS))
    k = rng.random()
    if k < 0.8: l, r = vtxt, lit
    elif k < 0.95: l, r = lit, vtxt
    elif k < 0.98: l, r = vtxt, rng.choice(VARS)
    else: l, r = lit, quote(rng, rng.choice(LITS))
    sp = " " if op in ("in", "not in") else rng.choice(["", " ", "  "])
    return l + (sp or " " if op in ("in", "not in") else sp) + op + (sp or " " if op in ("in", "not in") else sp) + r

def marker(rng, depth=3):
    if depth == 0 or rng.random() < 0.4:
        a = atom(rng)
        return "(" + ws(rng) + a + ws(rng) + ")" if rng.random() < 0.15 else a
    n = rng.choice([2, 2, 3])
    parts = [marker(rng, depth - 1) for _ in range(n)]
    out = parts[0]
    for p in parts[1:]: out += " " + rng.choice(["and", "or"]) + " " + p
    return "(" + out + ")" if rng.random() < 0.4 else out

def marker_variant(rng, m):
    """a marker that should be equal to m: whitespace, quote style, outer parentheses, dotted names"""
    k = rng.random()
    if k < 0.3: return "(" + m + ")"
    if k < 0.5: return "  " + m + " "
    if k < 0.7:
        for a, d in DOTTED.items():
            if a in m: return m.replace(a, d, 1)
    if k < 0.85 and "'" not in m: return m.replace('"', "'")
    return m.replace(" and ", "  and ").replace(" or ", " or  ")

NAMES = ["foo", "Foo", "foo-bar", "Foo_Bar", "foo.bar", "a", "A1", "zope.interface", "x--y", "pkg_1"]
EXTRAS = ["a", "b", "A", "test", "Foo_Bar", "foo-bar", "x1"]
URLS = ["https://example.com/a.whl", "file:///tmp/x", "git+https://github.com/a/b.git@main#egg=a"]

def spec_set(rng, n=None):
    n = rng.choice([0, 1, 1, 2, 2, 3]) if n is None else n
    cl = [gen_spec.spec_string(rng, op=rng.choice(gen_spec.OPS[:7]))[0].strip() for _ in range(n)]
    sep = rng.choice([",", ", ", " , "])
    return sep.join(cl)

def requirement(rng):
    s = rng.choice(NAMES)
    if rng.random() < 0.4:
        ex = rng.sample(EXTRAS, rng.choice([0, 1, 2, 3]))
        s += ws(rng) + "[" + (ws(rng) + "," + ws(rng)).join(ex) + "]"
    k = rng.random()
    url = False
    if k < 0.6:
        ss = spec_set(rng)
        if ss: s += ws(rng) + ("(" + ss + ")" if rng.random() < 0.3 else ss)
    elif k < 0.7:
        s += " @ " + rng.choice(URLS); url = True
    if rng.random() < 0.4:
        s += (" ; " if url else ws(rng) + ";" + ws(rng)) + marker(rng, 2)
    return s

INTERPS = ["py3", "cp312", "CP312", "py2.py3", "pp310", "cp39"]
ABIS = ["none", "abi3", "cp312", "CP312", "cp312t", "pypy310_pp73"]
PLATS = ["any", "linux_x86_64", "manylinux_2_17_x86_64", "MANYLINUX_2_17_X86_64", "win_amd64", "macosx_11_0_arm64"]
def tag(rng): return "-".join([rng.choice(INTERPS).split(".")[0], rng.choice(ABIS), rng.choice(PLATS)])
def tag_variant(rng, t): return rng.choice([t.upper(), t.lower(), t])
